/-
C13, order independence. The contracts in /repo/pkg/k8s/verif_contracts.go define the request and
capacity totals by the recursion
    sumX(xs, k) = (k <= 0 ? 0 : sumX(xs, k - 1) + f(xs[k - 1]))
(sumPodCPU, sumPodMem, sumAllocCPU, sumAllocMem), and govc proves that the real code returns
sumX(xs, len(xs)).  This file proves, for that recursion and every per-element function f,
that sumX(xs, len xs) is the sum of f over the list, hence invariant under every permutation
of the list.  Checked by Lean 4 / Mathlib on every thorough run.
-/
import Mathlib.Data.List.Perm.Basic
import Mathlib.Data.List.Induction
import Mathlib.Algebra.BigOperators.Group.List.Basic

namespace C13

/-- the recursion of the contract file, over an indexing function `xs` (0-based) -/
def sumK {α : Type} (f : α → Int) (xs : Nat → α) : Nat → Int
  | 0 => 0
  | k + 1 => sumK f xs k + f (xs k)

theorem sumK_congr {α : Type} (f : α → Int) (xs ys : Nat → α) (k : Nat)
    (h : ∀ i, i < k → xs i = ys i) : sumK f xs k = sumK f ys k := by
  induction k with
  | zero => rfl
  | succ n ih =>
    simp only [sumK]
    rw [ih (fun i hi => h i (Nat.lt_succ_of_lt hi)), h n (Nat.lt_succ_self n)]

/-- the contract's total over a whole list is the list sum of the per-element values -/
theorem sumK_eq_sum {α : Type} [Inhabited α] (f : α → Int) (l : List α) :
    sumK f (fun i => l.getD i default) l.length = (l.map f).sum := by
  induction l using List.reverseRecOn with
  | nil => rfl
  | append_singleton l a ih =>
    simp only [List.length_append, List.length_singleton, sumK, List.map_append, List.map_cons,
      List.map_nil, List.sum_append, List.sum_cons, List.sum_nil, add_zero]
    have h1 : sumK f (fun i => (l ++ [a]).getD i default) l.length
        = sumK f (fun i => l.getD i default) l.length := by
      apply sumK_congr
      intro i hi
      simp [List.getD_eq_getElem?_getD, List.getElem?_append_left hi]
    rw [h1, ih]
    simp [List.getD_eq_getElem?_getD]

/-- order independence: permuting the list leaves the contract's total unchanged -/
theorem total_perm_invariant {α : Type} [Inhabited α] (f : α → Int) (l₁ l₂ : List α)
    (h : l₁.Perm l₂) :
    sumK f (fun i => l₁.getD i default) l₁.length = sumK f (fun i => l₂.getD i default) l₂.length := by
  rw [sumK_eq_sum, sumK_eq_sum]
  exact (h.map f).sum_eq

end C13
