package controller

// Witness for finding F2 (property C02): while the scale-up cool-down is running,
// a scan that sees fewer untainted nodes than min_nodes still untaints / resizes,
// because the below-minimum branch runs before the lock is consulted.

import (
	"context"
	metav1 "k8s.io/apimachinery/pkg/apis/meta/v1"
	"testing"

	"github.com/atlassian/escalator/pkg/test"
)

func TestVerifWitnessC02BelowMinDuringCooldown(t *testing.T) {
	opts := NodeGroupOptions{Name: "default", CloudProviderGroupName: "default", MinNodes: 2, MaxNodes: 10,
		ScaleUpThresholdPercent: 70, TaintLowerCapacityThresholdPercent: 30, TaintUpperCapacityThresholdPercent: 40,
		SoftDeleteGracePeriod: "1m", HardDeleteGracePeriod: "10m", ScaleUpCoolDownPeriod: "10m"}
	// two nodes, one of them tainted: untainted (1) < min_nodes (2)
	nodes := test.BuildTestNodes(1, test.NodeOpts{CPU: 1000, Mem: 1000})
	nodes = append(nodes, test.BuildTestNodes(1, test.NodeOpts{CPU: 1000, Mem: 1000, Tainted: true})...)
	client, copts, err := buildTestClient(nodes, nil, []NodeGroupOptions{opts}, ListerOptions{})
	if err != nil {
		t.Fatal(err)
	}
	ngs := BuildNodeGroupsState(nodeGroupsStateOpts{nodeGroups: []NodeGroupOptions{opts}, client: *client})
	ng := test.NewNodeGroup("default", "default", 0, 10, 2)
	cp := test.NewCloudProvider(1)
	cp.RegisterNodeGroup(ng)
	c := &Controller{Client: client, Opts: copts, cloudProvider: cp, nodeGroups: ngs}
	// a scale-up was accepted a moment ago: the 10 minute cool-down is running
	ngs["default"].scaleUpLock.lock(1)
	before := map[string]int{}
	for _, n := range nodes {
		before[n.Name] = len(n.Spec.Taints)
	}
	_, _ = c.scaleNodeGroup("default", ngs["default"])
	for _, n := range nodes {
		got, _ := client.CoreV1().Nodes().Get(context.TODO(), n.Name, metav1.GetOptions{})
		if got != nil && len(got.Spec.Taints) != before[n.Name] {
			t.Fatalf("node %s was rewritten (untainted) during the scale-up cool-down", n.Name)
		}
	}
	if ng.TargetSize() != 2 {
		t.Fatalf("cloud target changed from 2 to %d during the scale-up cool-down", ng.TargetSize())
	}
}
