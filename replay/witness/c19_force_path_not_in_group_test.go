package controller

// Witness for finding F10 (property C19): when the cloud provider answers "node not in
// node group" while removing a force-tainted node, escalator only logs the error and the
// scan (and the controller) carries on instead of stopping with that error.

import (
	"testing"

	"github.com/atlassian/escalator/pkg/cloudprovider"
	"github.com/atlassian/escalator/pkg/test"
	v1 "k8s.io/api/core/v1"
)

type notInGroupNodeGroup struct{ *test.NodeGroup }

func (n notInGroupNodeGroup) DeleteNodes(nodes ...*v1.Node) error {
	return &cloudprovider.NodeNotInNodeGroup{NodeName: nodes[0].Name, ProviderID: nodes[0].Spec.ProviderID, NodeGroup: n.ID()}
}

type oneGroupProvider struct {
	*test.CloudProvider
	ng cloudprovider.NodeGroup
}

func (p oneGroupProvider) GetNodeGroup(id string) (cloudprovider.NodeGroup, bool) { return p.ng, true }

func TestVerifWitnessC19ForcePathNotInGroup(t *testing.T) {
	opts := NodeGroupOptions{Name: "default", CloudProviderGroupName: "default", MinNodes: 1, MaxNodes: 10,
		ScaleUpThresholdPercent: 70, TaintLowerCapacityThresholdPercent: 30, TaintUpperCapacityThresholdPercent: 40,
		SlowNodeRemovalRate: 1, FastNodeRemovalRate: 2,
		SoftDeleteGracePeriod: "1m", HardDeleteGracePeriod: "10m", ScaleUpCoolDownPeriod: "10m"}
	nodes := test.BuildTestNodes(2, test.NodeOpts{CPU: 1000, Mem: 1000})
	nodes = append(nodes, test.BuildTestNodes(1, test.NodeOpts{CPU: 1000, Mem: 1000, ForceTainted: true})...)
	pods := buildTestPods(2, 700, 700) // 70% of the two untainted nodes: nothing else to do this scan
	client, copts, err := buildTestClient(nodes, pods, []NodeGroupOptions{opts}, ListerOptions{})
	if err != nil {
		t.Fatal(err)
	}
	ngs := BuildNodeGroupsState(nodeGroupsStateOpts{nodeGroups: []NodeGroupOptions{opts}, client: *client})
	cp := oneGroupProvider{test.NewCloudProvider(1), notInGroupNodeGroup{test.NewNodeGroup("default", "default", 0, 10, 3)}}
	c := &Controller{Client: client, Opts: copts, cloudProvider: cp, nodeGroups: ngs}
	_, err = c.scaleNodeGroup("default", ngs["default"])
	if _, ok := err.(*cloudprovider.NodeNotInNodeGroup); !ok {
		t.Fatalf("the cloud provider reported a node that is not in the node group, but the scan returned %v", err)
	}
}
