package aws

// Witness for finding F6 (property C07): a scale-up must land exactly delta above the group's CURRENT
// desired capacity. DeleteNodes terminates instances with ShouldDecrementDesiredCapacity=true, which
// lowers the ASG's real desired capacity, but left the provider's cached DesiredCapacity untouched; an
// IncreaseSize later in the same scan (force-tainted nodes are removed before the scale-up decision)
// then computed cached+delta and so over-requested by the number of instances just terminated.

import (
	"testing"

	"github.com/atlassian/escalator/pkg/cloudprovider"
	awsapi "github.com/aws/aws-sdk-go/aws"
	"github.com/aws/aws-sdk-go/service/autoscaling"
	"github.com/aws/aws-sdk-go/service/autoscaling/autoscalingiface"
	v1 "k8s.io/api/core/v1"
)

// witnessASG plays AWS: it holds the real desired capacity of one ASG.
type witnessASG struct {
	autoscalingiface.AutoScalingAPI
	desired int64
	sets    []int64
}

func (w *witnessASG) TerminateInstanceInAutoScalingGroup(in *autoscaling.TerminateInstanceInAutoScalingGroupInput) (*autoscaling.TerminateInstanceInAutoScalingGroupOutput, error) {
	if awsapi.BoolValue(in.ShouldDecrementDesiredCapacity) {
		w.desired--
	}
	return &autoscaling.TerminateInstanceInAutoScalingGroupOutput{Activity: &autoscaling.Activity{Description: awsapi.String("terminating")}}, nil
}

func (w *witnessASG) SetDesiredCapacity(in *autoscaling.SetDesiredCapacityInput) (*autoscaling.SetDesiredCapacityOutput, error) {
	w.desired = *in.DesiredCapacity
	w.sets = append(w.sets, *in.DesiredCapacity)
	return &autoscaling.SetDesiredCapacityOutput{}, nil
}

func TestVerifWitnessC07StaleTargetAfterDelete(t *testing.T) {
	fake := &witnessASG{desired: 10}
	var instances []*autoscaling.Instance
	var nodes []*v1.Node
	for _, id := range []string{"i-a", "i-b", "i-c", "i-d", "i-e", "i-f", "i-g", "i-h", "i-i", "i-j"} {
		instances = append(instances, &autoscaling.Instance{InstanceId: awsapi.String(id), AvailabilityZone: awsapi.String("us-east-1a")})
		nodes = append(nodes, &v1.Node{Spec: v1.NodeSpec{ProviderID: "aws:///us-east-1a/" + id}})
	}
	n := &NodeGroup{
		id:       "asg",
		provider: &CloudProvider{service: fake},
		config:   &cloudprovider.NodeGroupConfig{},
		asg: &autoscaling.Group{
			AutoScalingGroupName: awsapi.String("asg"),
			DesiredCapacity:      awsapi.Int64(10), MinSize: awsapi.Int64(1), MaxSize: awsapi.Int64(50),
			Instances: instances,
		},
	}
	// the scan removes two force-tainted nodes ...
	if err := n.DeleteNodes(nodes[0], nodes[1]); err != nil {
		t.Fatal(err)
	}
	if fake.desired != 8 {
		t.Fatalf("after two terminations with decrement the real desired capacity is %d, want 8", fake.desired)
	}
	// ... and then decides it needs 4 more nodes
	before := fake.desired
	if err := n.IncreaseSize(4); err != nil {
		t.Fatal(err)
	}
	if fake.desired != before+4 {
		t.Fatalf("IncreaseSize(4) on a real desired capacity of %d asked for %d (SetDesiredCapacity calls: %v); want %d", before, fake.desired, fake.sets, before+4)
	}
}
