package aws

// Witness for finding F3 (property C18): terminating more than 1000 orphaned fleet
// instances must use calls of at most 1000 instance ids each (the TerminateInstances API
// limit); the id slice was accumulated across batches, so the second call carried 1000+N ids.

import (
	"fmt"
	"testing"

	"github.com/atlassian/escalator/pkg/cloudprovider"
	awsapi "github.com/aws/aws-sdk-go/aws"
	"github.com/aws/aws-sdk-go/service/ec2"
	"github.com/aws/aws-sdk-go/service/ec2/ec2iface"
)

type witnessEC2 struct {
	ec2iface.EC2API
	sizes []int
}

func (w *witnessEC2) TerminateInstances(in *ec2.TerminateInstancesInput) (*ec2.TerminateInstancesOutput, error) {
	w.sizes = append(w.sizes, len(in.InstanceIds))
	return &ec2.TerminateInstancesOutput{}, nil
}

func TestVerifWitnessC18TerminateBatchesOver1000(t *testing.T) {
	fake := &witnessEC2{}
	n := &NodeGroup{id: "asg", provider: &CloudProvider{ec2Service: fake}, config: &cloudprovider.NodeGroupConfig{}}
	var ids []*string
	for i := 0; i < 1001; i++ {
		ids = append(ids, awsapi.String(fmt.Sprintf("i-%04d", i)))
	}
	terminateOrphanedInstances(n, ids)
	total := 0
	for _, s := range fake.sizes {
		total += s
		if s > 1000 {
			t.Fatalf("a TerminateInstances call carried %d instance ids (limit 1000); calls: %v", s, fake.sizes)
		}
	}
	if total != 1001 {
		t.Fatalf("1001 instances given, %d ids submitted in total; calls: %v", total, fake.sizes)
	}
}
