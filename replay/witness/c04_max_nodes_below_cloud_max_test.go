package controller

// Witness for finding F1 (property C04): with max_nodes strictly below the cloud
// group's own maximum, a scale-up was clamped only against the cloud maximum, so
// escalator asked for a target size above max_nodes.

import (
	"testing"

	"github.com/atlassian/escalator/pkg/test"
)

func TestVerifWitnessC04MaxNodesBelowCloudMax(t *testing.T) {
	ng := test.NewNodeGroup("asg", "asg", 0, 50, 5) // cloud max 50, target 5
	cp := test.NewCloudProvider(1)
	cp.RegisterNodeGroup(ng)
	state := &NodeGroupState{Opts: NodeGroupOptions{Name: "g", CloudProviderGroupName: "asg", MinNodes: 0, MaxNodes: 5}}
	c := &Controller{cloudProvider: cp}
	_, _ = c.scaleUpCloudProviderNodeGroup(scaleOpts{nodeGroup: state, nodesDelta: 10})
	if ng.TargetSize() > 5 {
		t.Fatalf("max_nodes=5, cloud max=50: escalator asked for target size %d", ng.TargetSize())
	}
}
