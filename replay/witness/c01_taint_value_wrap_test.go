package controller

// Witness for finding F9 (property C01): an escalator taint whose value is a
// Unix time beyond what time.Unix can represent denotes an instant ~292 billion
// years in the FUTURE; a node carrying it (with a pod still running on it) must
// not be removed. Before the fix, time.Unix wrapped, Sub saturated to +max, and
// the node was treated as past its hard grace period and reaped.

import (
	"testing"
	"time"

	"github.com/atlassian/escalator/pkg/k8s"
	"github.com/atlassian/escalator/pkg/test"
	v1 "k8s.io/api/core/v1"
)

func TestVerifWitnessC01TaintValueWrap(t *testing.T) {
	for _, val := range []string{"9223371974719179008", "9223372036854775807"} {
		node := test.BuildTestNode(test.NodeOpts{Name: "n1", CPU: 1000, Mem: 1000, Creation: time.Now()})
		node.Spec.Taints = []v1.Taint{{Key: k8s.ToBeRemovedByAutoscalerKey, Value: val, Effect: v1.TaintEffectNoSchedule}}
		tm, err := k8s.GetToBeRemovedTime(node)
		if err != nil || tm == nil {
			continue // unreadable taint time: the node is never removed (allowed by C01)
		}
		if time.Now().Sub(*tm) > time.Hour {
			t.Fatalf("taint value %s (a time in the far future) is read as more than an hour in the past: %v", val, *tm)
		}
	}
}
