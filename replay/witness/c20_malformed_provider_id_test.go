package aws

// Witness for finding F4 (property C20): the registration-lag lookup (calculateNewNodeMetrics ->
// CloudProvider.GetInstance) took the fifth "/"-separated piece of node.Spec.ProviderID without
// looking at how many pieces there are. A node that has registered but has no provider ID yet
// (or any ID not of the form aws:///zone/id) made GetInstance panic with
// "index out of range [4] with length 1", which takes the whole controller down.

import (
	"testing"

	"github.com/aws/aws-sdk-go/service/ec2"
	"github.com/aws/aws-sdk-go/service/ec2/ec2iface"
	v1 "k8s.io/api/core/v1"
)

type witnessDescribeEC2 struct {
	ec2iface.EC2API
}

func (w *witnessDescribeEC2) DescribeInstances(in *ec2.DescribeInstancesInput) (*ec2.DescribeInstancesOutput, error) {
	return &ec2.DescribeInstancesOutput{}, nil
}

func TestVerifWitnessC20MalformedProviderID(t *testing.T) {
	c := &CloudProvider{ec2Service: &witnessDescribeEC2{}}
	for _, pid := range []string{"", "aws:///us-east-1a", "i-0123456789", "gce://project/zone/name"} {
		func() {
			defer func() {
				if r := recover(); r != nil {
					t.Fatalf("GetInstance panicked on provider ID %q: %v", pid, r)
				}
			}()
			node := &v1.Node{Spec: v1.NodeSpec{ProviderID: pid}}
			if _, err := c.GetInstance(node); err == nil {
				t.Fatalf("GetInstance accepted the malformed provider ID %q", pid)
			}
		}()
	}
}
