package controller

// Witness for finding F5 (property C16): a configuration with a negative
// slow_node_removal_rate (and fast >= slow) passed validation, although a negative
// rate turns the "slowly remove nodes" band into a scale-up.

import "testing"

func TestVerifWitnessC16NegativeSlowRate(t *testing.T) {
	ng := NodeGroupOptions{
		Name: "x", LabelKey: "k", LabelValue: "v", CloudProviderGroupName: "asg",
		MinNodes: 1, MaxNodes: 5,
		TaintUpperCapacityThresholdPercent: 40, TaintLowerCapacityThresholdPercent: 30, ScaleUpThresholdPercent: 70,
		SlowNodeRemovalRate: -3, FastNodeRemovalRate: -2,
		SoftDeleteGracePeriod: "1m", HardDeleteGracePeriod: "10m", ScaleUpCoolDownPeriod: "5m",
	}
	if problems := ValidateNodeGroup(ng); len(problems) == 0 {
		t.Fatalf("configuration with slow_node_removal_rate=%d fast_node_removal_rate=%d passed validation", ng.SlowNodeRemovalRate, ng.FastNodeRemovalRate)
	}
}
