package controller

// Bounded stand-in (NOT a proof) for the one gap the C05/C06 proofs leave open: they model float64
// as the reals.  This test runs the real calcPercentUsage and calcScaleUpDelta (float64) on a grid
// and checks the C05 statement itself in exact rational arithmetic (math/big):
//   with n equal nodes of size c, request r, threshold T and d the delta the code returns,
//   (a) 100 r <= T (n + d) c                      -- n + d nodes are enough
//   (b) d <= 1 or not 100 r <= T (n + d - 2) c    -- at most one node above the smallest such number
// Injected into pkg/controller by `go test -overlay` from /verif (never written into /repo).
// Bound: the ns / cs / ts / steps grids below; the run prints the number of points evaluated.
// A point where (a) fails although 100 r exceeds T (n + d) c by less than one part in 2^50 is the
// float64 rounding class "edge-rounding" (finding F11); anything else is an unlisted failure.
// verif:props C05
// verif:pkg pkg/controller
// verif:run TestVerifBoundedC05Grid

import (
	"fmt"
	"math"
	"math/big"
	"os"
	"testing"

	v1 "k8s.io/api/core/v1"
	"k8s.io/apimachinery/pkg/api/resource"
)

func TestVerifBoundedC05Grid(t *testing.T) {
	thorough := os.Getenv("VERIF_TIER") == "thorough"
	ns := []int{1, 2, 3, 5, 7, 10, 33, 100, 999}
	cs := []int64{1, 3, 1000, 1900, 4000, 7777, 96000}
	ts := []int{1, 7, 33, 50, 70, 90, 99, 100, 130}
	steps := 60
	if thorough {
		ns = append(ns, 4, 6, 17, 64, 250, 2000)
		cs = append(cs, 2, 7, 500, 2000, 3920, 15890, 64000, 1<<40)
		ts = append(ts, 2, 3, 10, 45, 60, 75, 80, 85, 95, 101, 200)
		steps = 400
	}
	points, scaleups, bad, known := 0, 0, 0, 0
	for _, n := range ns {
		nodes := make([]*v1.Node, n)
		for _, c := range cs {
			for _, T := range ts {
				cap := int64(n) * c
				// requests from just below the threshold to 4x capacity, dense around exact band edges
				var reqs []int64
				for k := 0; k <= steps; k++ {
					reqs = append(reqs, cap*int64(T)/100+int64(k)-2, cap*int64(k)/int64(steps/4+1))
				}
				for m := 1; m <= 6; m++ { // exact edges: r = T (n+m) c / 100 and neighbours
					e := int64(T) * int64(n+m) * c / 100
					reqs = append(reqs, e-1, e, e+1)
				}
				for _, r := range reqs {
					if r < 0 {
						continue
					}
					points++
					cpuReq, memReq := *resource.NewMilliQuantity(r, resource.DecimalSI), *resource.NewMilliQuantity(r/2, resource.DecimalSI)
					capQ := *resource.NewMilliQuantity(cap, resource.DecimalSI)
					cpu, mem, err := calcPercentUsage(cpuReq, memReq, capQ, capQ, int64(n))
					if err != nil {
						t.Fatalf("calcPercentUsage(%d,%d): %v", r, cap, err)
					}
					if !(math.Max(cpu, mem) > float64(T)) {
						continue // not a scale-up by threshold
					}
					scaleups++
					g := &NodeGroupState{Opts: NodeGroupOptions{ScaleUpThresholdPercent: T}}
					d, err := calcScaleUpDelta(nodes, cpu, mem, cpuReq, memReq, g)
					if err != nil {
						t.Fatalf("calcScaleUpDelta: %v", err)
					}
					lhs := new(big.Int).Mul(big.NewInt(100), big.NewInt(r))
					enough := func(k int64) bool {
						rhs := new(big.Int).Mul(big.NewInt(int64(T)), big.NewInt(k))
						rhs.Mul(rhs, big.NewInt(c))
						return lhs.Cmp(rhs) <= 0
					}
					okA := enough(int64(n + d))
					okB := d <= 1 || !enough(int64(n+d-2))
					if !okA && okB {
						// by how much is n + d short?  gap / (100 r) < 2^-50: float64 cannot see it
						rhs := new(big.Int).Mul(big.NewInt(int64(T)), big.NewInt(int64(n+d)))
						rhs.Mul(rhs, big.NewInt(c))
						gap := new(big.Int).Sub(lhs, rhs)
						gap.Lsh(gap, 50)
						if gap.Cmp(lhs) < 0 {
							known++
							if known <= 3 {
								fmt.Printf("VERIF-BOUNDED-KNOWN class=edge-rounding n=%d c=%d T=%d r=%d cpu%%=%v delta=%d\n", n, c, T, r, cpu, d)
							}
							continue
						}
					}
					if !okA || !okB {
						bad++
						if bad <= 5 {
							fmt.Printf("VERIF-BOUNDED-FAIL n=%d c=%d T=%d r=%d cpu%%=%v delta=%d enough=%v notTooMany=%v\n", n, c, T, r, cpu, d, okA, okB)
						}
					}
				}
			}
		}
	}
	fmt.Printf("VERIF-BOUNDED points=%d scaleups=%d bad=%d known=%d\n", points, scaleups, bad, known)
	if bad > 0 {
		t.Fail()
	}
}
