package controller

// Bounded stand-in (NOT a proof) for the reals-for-float64 assumption of C06: the band a scan falls into is
// decided by comparing the float64 percentage calcPercentUsage returns with the integer thresholds. This test
// runs the real calcPercentUsage on a grid and compares the outcome of `percent < T`, `percent > T` with the
// exact comparison of 100*request against T*capacity (math/big).
// A disagreement where the exact values are EQUAL (utilisation exactly on a threshold, float64 landing a hair
// beside it) is the class "exact-threshold" (finding F12); any other disagreement is an unlisted failure.
// verif:props C06
// verif:pkg pkg/controller
// verif:run TestVerifBoundedC06Bands

import (
	"fmt"
	"math/big"
	"os"
	"testing"

	"k8s.io/apimachinery/pkg/api/resource"
)

func TestVerifBoundedC06Bands(t *testing.T) {
	thorough := os.Getenv("VERIF_TIER") == "thorough"
	caps := []int64{1, 3, 7, 20, 1000, 1900, 3920, 4000, 7777, 96000, 123456789}
	ts := []int{1, 7, 33, 40, 45, 50, 55, 60, 70, 90, 99, 100, 130}
	span := 40
	if thorough {
		caps = append(caps, 2, 9, 11, 13, 17, 19, 23, 40, 300, 15890, 64000, 1<<33, 1<<40)
		span = 400
	}
	points, bad, known := 0, 0, 0
	for _, c := range caps {
		for _, T := range ts {
			// requests around the exact edge r = T*c/100 and spread over 0 .. 2c
			var reqs []int64
			e := int64(T) * c / 100
			for k := -3; k <= 3; k++ {
				reqs = append(reqs, e+int64(k))
			}
			for k := 0; k <= span; k++ {
				reqs = append(reqs, 2*c*int64(k)/int64(span))
			}
			for _, r := range reqs {
				if r < 0 {
					continue
				}
				points++
				req := *resource.NewMilliQuantity(r, resource.DecimalSI)
				capQ := *resource.NewMilliQuantity(c, resource.DecimalSI)
				cpu, _, err := calcPercentUsage(req, req, capQ, capQ, 1)
				if err != nil {
					t.Fatalf("calcPercentUsage(%d,%d): %v", r, c, err)
				}
				lhs := new(big.Int).Mul(big.NewInt(100), big.NewInt(r))
				rhs := new(big.Int).Mul(big.NewInt(int64(T)), big.NewInt(c))
				exact := lhs.Cmp(rhs) // -1: below T, 0: on T, +1: above T
				got := 0
				if cpu < float64(T) {
					got = -1
				} else if cpu > float64(T) {
					got = 1
				}
				if got == exact {
					continue
				}
				if exact == 0 {
					known++
					if known <= 3 {
						fmt.Printf("VERIF-BOUNDED-KNOWN class=exact-threshold request=%dm capacity=%dm threshold=%d percent=%v (exactly on the threshold, float64 says %s)\n", r, c, T, cpu, map[int]string{-1: "below", 1: "above"}[got])
					}
					continue
				}
				bad++
				if bad <= 5 {
					fmt.Printf("VERIF-BOUNDED-FAIL request=%dm capacity=%dm threshold=%d percent=%v exact=%d float=%d\n", r, c, T, cpu, exact, got)
				}
			}
		}
	}
	fmt.Printf("VERIF-BOUNDED points=%d bad=%d known=%d\n", points, bad, known)
	if bad > 0 {
		t.Fail()
	}
}
