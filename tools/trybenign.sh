#!/bin/bash
# trybenign.sh <patch dir> <props...>: apply a behaviour-preserving change to /repo, run the quick checks, undo.
d=$1; shift
cd /repo && git diff --quiet || { echo "/repo is dirty"; exit 2; }
patch -s -p1 < $d/patch.diff || { echo "PATCH DOES NOT APPLY"; git checkout -- .; git clean -fdq; exit 2; }
export GOFLAGS=-mod=mod GOPROXY=off GOSUMDB=off GOTOOLCHAIN=local
go build ./... || echo BUILD-FAILS
cd /verif
for p in "$@"; do
  ./bin/govc check -prop $p 2>&1 | grep -E '^FAILED|^UNGEN|^VACUOUS|^MISSING|^UNDECIDED|^property=' | cut -c1-300 | sed "s|^|[$p] |"
done
cd /repo && git checkout -- . && git clean -fdq
find /repo -name '*.orig' -delete; find /repo -name '*.rej' -delete
