#!/bin/bash
# runbenign.sh: every behaviour-preserving change of benign/ must leave the checks silent.
# Properties run per change depend on the files it touches. Writes benign/RESULTS.md.
cd /verif
out=benign/RESULTS.md
echo "# benign corpus: result of tools/runbenign.sh ($(date -u +%F), /repo $(git -C /repo log -1 --format=%h))" > $out
echo >> $out; echo "| change | kind | properties run | alarms |" >> $out; echo "|---|---|---|---|" >> $out
for d in benign/B*/r*; do
  files=$(python3 -c "import json;print(' '.join(json.load(open('$d/meta.json'))['files_changed']))")
  kind=$(python3 -c "import json;print(json.load(open('$d/meta.json'))['kind'][:70].replace('|','/'))")
  props="C20"
  case "$files" in *pkg/controller/node_group.go*|*pkg/controller/util.go*|*pkg/controller/sort.go*) props="C12 C13 C14 C16 C05 C08 C20";; *pkg/controller/*) props="C01 C06 C12 C20";; esac
  case "$files" in *pkg/k8s/scheduler*|*pkg/k8s/pod_listers*|*pkg/k8s/node_listers*|*pkg/k8s/resource*) props="C13 C12 C20";; *pkg/k8s/*) props="C01 C13 C15 C20";; esac
  case "$files" in *pkg/cloudprovider/aws*) props="C07 C17 C18 C19 C20";; esac
  res=$(./tools/trybenign.sh /verif/$d $props 2>&1 | grep -E 'FAILED|UNGEN|VACUOUS|MISSING|UNDECIDED|PATCH|BUILD' | cut -c1-160 | tr '\n' ';')
  [ -z "$res" ] && res="none"
  echo "| ${d#benign/} | $kind | $props | $res |" >> $out
  echo "${d#benign/}: $res"
done
