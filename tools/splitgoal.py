#!/usr/bin/env python3
"""splitgoal.py <file.smt2> [timeout]: test each top-level conjunct of the (negated) goal separately."""
import subprocess,sys
src=open(sys.argv[1]).read()
T=sys.argv[2] if len(sys.argv)>2 else '10'
lines=src.split('\n')
gi=[i for i,l in enumerate(lines) if l.startswith('(assert (not ')][-1]
goal=lines[gi][len('(assert (not '):-2]
def split(s):
    if not s.startswith('(and '): return [s]
    parts=[];d=0;cur=''
    for ch in s[len('(and '):-1]:
        if ch=='(': d+=1
        if ch==')': d-=1
        cur+=ch
        if d==0 and cur.strip() and ch==')':
            parts.append(cur.strip());cur=''
    return parts
ps=split(goal)
print(len(ps),'conjuncts')
for p in ps:
    q='\n'.join(lines[:gi])+'\n(assert (not %s))\n(check-sat)\n'%p
    out=[]
    for solver in (['z3-new','-T:'+T,'-in'],['cvc5','--tlimit=%s000'%T,'--lang=smt2','-']):
        out.append(subprocess.run(solver,input=q,capture_output=True,text=True).stdout.split('\n')[0])
    print(out,p[:110])
