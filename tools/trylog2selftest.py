#!/usr/bin/env python3
"""trylog2selftest.py <log of tools/trymutant.sh runs, sections '=== Cxx/mN'> : print it in the `govc selftest` log format
that tools/recordseeds.py reads ('  seeded/Cxx/mN: detected by a, b' / '  MISSED seeded/Cxx/mN')."""
import sys, re
cur, obs, out = None, [], []
def flush():
    if cur:
        out.append('  seeded/%s: detected by %s' % (cur, ', '.join(obs)) if obs else '  MISSED seeded/%s' % cur)
for l in open(sys.argv[1]):
    m = re.match(r'=== (C\d\d/m\d+)', l)
    if m:
        flush(); cur, obs = m.group(1), []
        continue
    m = re.match(r'(FAILED|UNGENERATED|MISSING|VACUOUS) (\S+?):? (.*)', l)
    if m and cur:
        o = ('ungenerated:' + m.group(2) + ': ' + re.sub(r' at pkg/\S+', '', m.group(3).strip())[:150].replace(',', ';')) if m.group(1) == 'UNGENERATED' else m.group(2)
        if o not in obs:
            obs.append(o)
flush()
print('\n'.join(out))
