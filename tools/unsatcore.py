#!/usr/bin/env python3
"""unsatcore.py <file.smt2> [timeout]: name every assertion and print the unsat core (z3-new)."""
import subprocess,sys,re
src=open(sys.argv[1]).read().split('\n')
T=sys.argv[2] if len(sys.argv)>2 else '30'
out=['(set-option :produce-unsat-cores true)'];n=0;names={}
for l in src:
    if l.startswith('(set-option :produce-models'): continue
    if l.startswith('(assert ') and l.endswith(')'):
        n+=1;nm='a%d'%n;names[nm]=l
        out.append('(assert (! %s :named %s))'%(l[len('(assert '):-1],nm))
    elif l.startswith('(get-model'): out.append('(get-unsat-core)')
    else: out.append(l)
r=subprocess.run(['z3-new','-T:'+T,'-in'],input='\n'.join(out),capture_output=True,text=True).stdout
print(r.split('\n')[0])
for nm in re.findall(r'a\d+',r.split('\n',1)[1] if '\n' in r else ''):
    print(nm,names[nm][:300])
