#!/bin/bash
# runall.sh [props...]: run the quick check of each property (default: all with roots + NONE lint), print a summary
cd /verif
props=${@:-NONE C01 C02 C03 C04 C05 C06 C07 C08 C09 C10 C11 C12 C13 C14 C15 C16 C17 C18 C19 C20}
for p in $props; do
  out=$(./bin/govc check -prop $p 2>&1)
  echo "$out" | grep -E '^FAILED|^UNGEN|^VACUOUS|^MISSING|^KNOWN' | cut -c1-230 | sed "s/^/  [$p] /"
  echo "$out" | grep -E '^property=' 
done
