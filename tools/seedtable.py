#!/usr/bin/env python3
"""seedtable.py <selftest log>: markdown table of the seeded changes and canaries with the obligation that caught each."""
import sys, json, re, os
log = open(sys.argv[1]).read().split('\n')
rows = []
for l in log:
    m = re.match(r'\s+(MISSED )?((seeded|selftest)/\S+?)(:| *$)(.*)', l)
    if not m:
        continue
    missed, path, rest = m.group(1), m.group(2), m.group(5)
    meta = {}
    mp = os.path.join('/verif', path, 'meta.json')
    if os.path.exists(mp):
        meta = json.load(open(mp))
    summ = meta.get('summary', '').replace('|', '/').split('. ')[0]
    summ = re.sub(r'\s*\(pkg/[^)]*\)', '', summ)
    if len(summ) > 150:
        summ = summ[:147] + '…'
    by = ''
    if missed:
        by = '**missed**' + (' (expected: ' + meta.get('why_miss', 'outside the technique') + ')' if meta.get('expect') == 'miss' else '')
    elif 'patch failed' in rest:
        by = 'patch does not apply'
    else:
        d = rest.replace(' detected by ', '').strip()
        first = d.split(', ')[0]
        first = re.sub(r'\[(unknown|timeout|sat)\]$', '', first)
        n = len(d.split(', '))
        by = '`' + first + '`' + (f' (+{n-1})' if n > 1 else '')
    rows.append((path.replace('seeded/', '').replace('selftest/', 'canary '), summ, by))
print('| change | what it does | caught by |')
print('|---|---|---|')
for r in rows:
    print('| %s | %s | %s |' % r)
