#!/usr/bin/env python3
"""puttable.py: copy the table of seeded/RESULTS.md into DESIGN.md section 9 (between the SEEDED-TABLE markers)."""
import re
r=open('/verif/seeded/RESULTS.md').read()
tab='\n'.join(l for l in r.split('\n') if l.startswith('|'))
p='/verif/DESIGN.md'
s=open(p).read()
s=re.sub(r'<!-- SEEDED-TABLE-BEGIN -->.*?<!-- SEEDED-TABLE-END -->','<!-- SEEDED-TABLE-BEGIN -->\n'+tab.replace('\\','\\\\')+'\n<!-- SEEDED-TABLE-END -->',s,flags=re.S)
open(p,'w').write(s)
print('table rows:',tab.count('\n')-1)
