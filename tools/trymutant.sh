#!/bin/bash
# trymutant.sh <Cxx> <mN> [prop]: apply one seeded change to /repo, run the property's quick check, undo.
id=$1; m=$2; prop=${3:-$1}
cd /repo && git diff --quiet || { echo "/repo is dirty"; exit 2; }
patch -s -p1 < /verif/seeded/$id/$m/patch.diff || { git checkout -- .; git clean -fdq; exit 2; }
cd /verif && ./bin/govc check -prop $prop 2>&1 | grep -E '^FAILED|^UNGEN|^VACUOUS|^property=' | cut -c1-260
cd /repo && git checkout -- . && git clean -fdq -e '*.orig' && find . -name '*.orig' -delete
