#!/bin/bash
# confirm_seeded.sh <Cxx> <mN>: independently confirm one seeded change in a scratch worktree:
#  builds, full suite passes with it, demo fails with it, demo passes without it.
# Writes the outcome into /verif/seeded/<Cxx>/<mN>/confirmed.txt
export GOFLAGS=-mod=mod GOPROXY=off GOSUMDB=off GOTOOLCHAIN=local
id=$1; m=$2
dir=/verif/seeded/$id/$m
wt=$(mktemp -d /tmp/confirm-$id-$m-XXXX)
git -C /repo worktree add -q --detach "$wt" ${BASE:-d4ce77e} || exit 2
out=$dir/confirmed.txt
: > $out
meta=$dir/meta.json
demo=$(python3 -c "import json;print(json.load(open('$meta'))['demo_file'])")
pkgdir=$(python3 -c "import json;print(json.load(open('$meta'))['demo_pkg_dir'])")
run=$(python3 -c "import json;print(json.load(open('$meta'))['demo_run'])")
cd $wt
ok=1
git apply $dir/patch.diff || { echo "patch does not apply" >> $out; ok=0; }
if [ $ok = 1 ]; then
  go build ./... >> $out 2>&1 && echo "build: ok" >> $out || { echo "build: FAIL" >> $out; ok=0; }
  if go test -vet=off -count=1 ./... > $wt/suite.log 2>&1; then echo "suite with change: pass" >> $out; else echo "suite with change: FAIL" >> $out; tail -20 $wt/suite.log >> $out; ok=0; fi
  cp $dir/$demo $wt/$pkgdir/
  if (eval "$run") > $wt/demo1.log 2>&1; then echo "demo with change: PASSES (bad)" >> $out; ok=0; else echo "demo with change: fails (good)" >> $out; grep -m3 -E -- '--- FAIL|Error:|panic' $wt/demo1.log >> $out; fi
  git checkout -q -- . 
  if (eval "$run") > $wt/demo2.log 2>&1; then echo "demo without change: passes (good)" >> $out; else echo "demo without change: FAILS (bad)" >> $out; tail -5 $wt/demo2.log >> $out; ok=0; fi
fi
echo "CONFIRMED=$ok" >> $out
cd /
git -C /repo worktree remove --force "$wt"
