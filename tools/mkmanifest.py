#!/usr/bin/env python3
"""Regenerates /verif/MANIFEST.json from the table below (kept in one place so it stays valid)."""
import json, subprocess

TECH = "contracts (requires/ensures/invariant/modifies as //@ comments keyed by function) + weakest-precondition VCs generated over go/ssa of /repo's working tree, each obligation discharged by z3-new 5.1.0 / z3 4.8.12 / cvc5 1.0 (raced)"
GLOBAL_NOTE = ("Trusted: govc (the VC generator), go/ssa, the SMT solvers; assumed contracts on dependencies (client-go, AWS SDK, time, strconv, sort, fmt) listed in each evidence file; "
  "integers are mathematical (no wrap-around), time.Time is an unbounded ns count, float64 is the reals; logging/metrics calls are effect-free; no goroutine interleavings (listers return arbitrary lists).")

claimed = {
 "C01": dict(text="Proof on the real scan code: every cloud removal request (C_DELNODE) and Node deletion (K_DELETE) a scan of one group issues targets a node listed by the group's lister in that scan which is uncordoned and either carries the escalator taint with a readable (base-10, representable) taint time older than soft grace while its node-info entry holds only DaemonSet pods, or older than hard grace, or carries the force taint with such an empty entry (top clause post#[C01,C10] on scaleNodeGroup, carried by TryRemoveTaintedNodes / TryRemoveForceTaintedNodes / TryDeleteNodes / ScaleDown / filterNodes / GetToBeRemovedTime / NodeEmpty ...), plus the emptiness link to the listed pods. Holds from any state satisfying the group invariant, hence for every history and after any restart (nothing but the scan's snapshot, the clock and the options is read).", ref="§7 C01",
   note="k8s.CreateNodeNameToInfoMap is used through an ASSUMED contract (completeness of the node-info map; not yet verified function by function). Node names are unique among listed nodes (assumption of the lister contract). Finding F9 (taint value beyond time.Unix range) found by pre@time.Unix and fixed (9a6add4). " ),
 "C02": dict(text="Proof: scaleLock.locked() is true while (saturating) clock - lockTime < cool-down and false (and unlocked) once it has elapsed; ScaleUp arms the lock exactly when the cloud accepted an increase, after it, at the current clock; and a scan of a group whose lock is running issues no event of any kind (post#[C02] on scaleNodeGroup, for every clock value = every spacing of scans).", ref="§7 C02",
   note="Finding F2 (below-minimum recovery ran before the lock check) found by this clause, witnessed on the real code and fixed (commit in known-findings.json). 'Within one controller lifetime' = the lock lives in memory; the group invariant links minimumLockDuration to the configured cool-down. "),
 "C03": dict(text="Proof: the number of successful taint writes in a taint pass is at most max(0, untainted - min_nodes) and at most the rate (scaleDownTaint/ScaleDown/taintOldestN, counter nTaintOK maintained by the assumed Update contract); below the minimum nothing is tainted and an error is returned; ScaleUp never taints; RunOnce refreshes min/max from the cloud group each scan when auto-discovery is configured (post#[C03] with loop invariant).", ref="§7 C03",
   note="The untainted list is the one filterNodes returns (exactly the uncordoned nodes with neither taint, outside dry mode); the call-site preconditions allU/allT force scaleNodeGroup to pass those lists. Counting 'untainted nodes it sees' as the length of that list. "),
 "C04": dict(text="Proof: the only cloud request a scale-up makes is one IncreaseSize(d) with d >= 1 and target + d <= min(max_nodes, cloud max); a clamped request lands exactly on the bound; without headroom nothing is requested (scaleUpCloudProviderNodeGroup, ScaleUp, scaleNodeGroup post#[C04]); the AWS IncreaseSize rejects d <= 0 or target + d > ASG max with no AWS write.", ref="§7 C04",
   note="Finding F1 (clamp ignored max_nodes) found, witnessed, fixed. Cloud target/max are what the provider's cached view reports (interface contract). "),
 "C05": dict(text="Proof over the reals: calcPercentUsage and calcScaleUpDelta compute the stated formulas (incl. the scale-from-zero sentinel and the cached node size); lemmas C05_normal / C05_fromzero_a/b show n + d nodes bring both utilisations to at most the threshold and n + d - 1 do not; call-site assertions in scaleNodeGroup show the delta handed to ScaleUp is that d (or 1 when only an exception asked); the cached node size is the one observed in this scan. Bounded float64-vs-rational differential in the thorough tier.", ref="§7 C05", category="proof",
   note="float64 is modelled as the reals (rounding at exact band edges is outside the proof; see bounded differential, thorough tier). resource.Quantity values via uninterpreted milli()/qval() without saturation. Composition 'untainted + requested' relies on C07's clauses. "),
 "C06": dict(text="Proof (over the reals) by call-site assertions on the real scaleNodeGroup: a taint pass is entered only from the two lower bands with exactly that band's rate as the requested amount, the do-nothing branch only when no band asks for anything, a scale-up only with delta >= 1 which is 1 when only scale_on_starve / max_node_age asked; taint passes taint at most min(rate, untainted - min_nodes); the starve trigger is exactly the documented condition.", ref="§7 C06",
   note="Thresholds/rates range over what validation accepts (precondition). 'Exactly min(rate, untainted-min)' is proved as an upper bound on successful writes; equality needs every API call to succeed (not claimed). float64 as reals. "),
 "C07": dict(text="Proof: ScaleUp untaints first (at most N successes), issues at most one cloud request, as the last event, for exactly min(N - u, headroom) with u the count untaintNewestN reports, never while a tainted node was left unattempted (every tainted node's fresh copy was fetched when fewer than N succeeded); AWS IncreaseSize sets desired = cached target + d.", ref="§7 C07",
   note="Newest-first ORDER of the untaint attempts is not yet a discharged clause (the sort contract and comparator are under contract; the ordering clause is pending). The cached target can be stale after a force removal in the same scan (F6, see DESIGN.md). "),
 "C09": dict(text="Proof: filterNodes puts a cordoned node in the cordoned list only (whatever taints it carries) and the other lists hold exactly the uncordoned nodes by taint; every Node write / removal of a scan targets a listed node that is uncordoned (post#[C09] on scaleNodeGroup); capacity is computed from the untainted list.", ref="§7 C09", note="Outside dry mode, as the property states. "),
 "C10": dict(text="Proof: safeFromDeletion is true iff the annotation is present with a non-empty value; the reaper skips such nodes before any grace logic, so no removal event targets an annotated node unless it is force-tainted (delOK in post#[C01,C10]); filterNodes / tainting / capacity never read the annotation (it does not occur in their contracts and their frames).", ref="§7 C10", note=""),
 "C11": dict(text="Proof: with either dry-mode switch on, scaleNodeGroup and every emitter below it (taintOldestN, untaintNewestN, scaleUpCloudProviderNodeGroup, the reapers, TryDeleteNodes, ScaleUp, ScaleDown) leave the journal of writes unchanged.", ref="§7 C11", note="ASG tagging at provider registration (CreateOrUpdateTags) is outside a group's scan and outside the statement's enumeration. "),
 "C12": dict(text="Proof: every node a scan touches was listed by that group's own node lister in that scan and every cloud request goes to the group's own cloud group (post#[C12] on scaleNodeGroup); scaleNodeGroup preserves the invariant of every other group's state and writes only its own state (frame); RunOnce processes every group once (scan counter) and returns early only on not-in-group, provider rebuild failure or a vanished cloud group.", ref="§7 C12",
   note="The two-worlds comparison is reduced to footprints (reads/writes) + determinism of sequential Go (trusted meta-step). The wiring lister -> filter function (NewClient / NewNodeGroupLister / Filtered*Lister.List) is not yet under contract; the filter functions themselves are (C14). "),
 "C13": dict(text="Proof on the real calculators, for every list length, pod shape and quantity: ComputePodResourceRequest returns max(sum of container requests, largest init-container request) + overhead per resource (loop invariants over recursive spec sums); CalculatePodsRequestedUsage returns the sum of that over the pods given and CalculateNodesCapacity the sum of allocatable CPU (millicores) / memory (bytes) over the nodes given (recursive opaque spec functions, unfolded per iteration); call-site assertions in scaleNodeGroup show that what calcPercentUsage divides is the total over the group's listed pods and over exactly the untainted uncordoned nodes filterNodes returned; calcPercentUsage returns 100 * request / capacity per resource and the decision uses max(cpu, mem). Order independence: Lean 4 / Mathlib lemma (lemmas/C13_perm.lean) that the contract's recursion is the list sum, hence permutation-invariant.", ref="§7 C13",
   note="Quantities are read through uninterpreted milli()/qval() of resource.Quantity (assumed contracts on Quantity.MilliValue/Value/Cpu/Memory and the constructors; no saturation, no rounding of sub-milli quantities). float64 division as reals. Memory is compared in milli-bytes (1000 * bytes) on both sides of the division. "),
 "C14": dict(text="Proof for all pod/node shapes (any number of terms, expressions, values, owners): the three filter closures return true iff the documented condition holds (selector match or required In-expression listing the value, not DaemonSet; default group: not DaemonSet, not static, no selector, no affinity of any kind; node label equals value).", ref="§7 C14", note=""),
 "C15": dict(
   text="Proof, for every node object, taint list (any length/order), effect and API failure: AddToBeRemovedTaint sends the fetched object only if it did not carry the escalator taint when fetched (never re-stamped), with the fetched taints in order plus exactly one new taint (key, defaulted effect, current Unix time); DeleteToBeRemovedTaint sends it only if it carried the taint and removes exactly the first such taint (swap with last), keeping every other one; both write nothing else of any Node object (syntactic frame over all v1/metav1 field arrays).",
   ref="§7 C15",
   note="Get returns a deep-fresh copy whose taints are recorded by the got* spec functions (assumed contract on NodeInterface.Get); Update never mutates the object sent; fmt.Sprint(int64) is injective decimal formatting (assumed); history part (later scale-downs cannot restart the grace period) follows because the check is made on the freshly fetched object on every call. "),
 "C16": dict(
   text="Proof (validator half), for every NodeGroupOptions value: if ValidateNodeGroup returns no problem then name/label/cloud group are non-empty, 0 < lower < upper < scale-up threshold, 0 <= slow <= fast, 0 < soft < hard, cool-down > 0, (0 <= min < max or min = max = 0), taint effect/lifecycle/max_node_age valid. The decoding half (same configuration as YAML or JSON decodes to the same options, every documented key honoured) is NOT decided: it is reflection over struct tags inside encoding/json and k8s yaml, which no contract on escalator code expresses.",
   ref="§7 C16, §9",
   note="time.ParseDuration is modelled by uninterpreted parseDurOK/parseDurVal (assumed contract); k8s.TaintEffectTypes holds exactly the three effects (precondition); private duration caches are zero on a freshly decoded configuration (precondition). Finding F5 (negative slow rate accepted) found by post#2 and fixed. YAML/JSON decoding: not applicable to this technique, stated here rather than claimed. "),
 "C17": dict(text="Proof for the plain-ASG path: IncreaseSize(d) rejects d <= 0 or desired + d > ASG max with no AWS write, otherwise issues exactly one SetDesiredCapacity(asg, desired + d) (> desired). The launch-template (fleet) path below it (CreateFleet request shape, attach batches of <= 20) is NOT yet verified function by function: setASGDesiredSizeOneShot is used through an assumed contract.", ref="§7 C17", category="proof",
   note="Partial: fleet half pending (listed as trusted base in the evidence). SDK call contracts assumed. "),
 "C18": dict(text="Proof for the termination half and the lock half: terminateOrphanedInstances submits every instance given, in TerminateInstances calls of at most 1000 ids (pre@TerminateInstances), for every fleet size; ScaleUp leaves the cool-down lock untouched whenever the provider reports a failure. The attach/readiness half (every acquired instance ends up attached xor terminated) is NOT yet discharged.", ref="§7 C18", category="proof",
   note="Partial. Finding F3 (id slice accumulated across batches: 1000, 2000, ...) found by pre@TerminateInstances, witnessed and fixed. log.Fatalf after three consecutive clean-ups is a point of no return. "),
 "C19": dict(text="Proof: aws DeleteNodes refuses the whole request (no AWS write) when desired <= min or desired - len(nodes) < min; otherwise terminates, always with decrement, the first ASG instance whose provider ID equals each node's, in order, never more than desired - min, stopping with a *NodeNotInNodeGroup error at the first non-member or at the first failing call; TryDeleteNodes deletes Node objects only after every cloud request of the batch was accepted; a not-in-group error from the provider is returned by the reapers, ScaleDown, scaleNodeGroup and RunOnce.", ref="§7 C19",
   note="instanceToProviderID (fmt.Sprintf) is an assumed injective formatting; ASG instance records carry AZ and id (SDK assumption). Finding F10 (force path only logged the error) found, witnessed, fixed. "),
 "C20": dict(text="Proof of panic-freedom and loop termination, function by function, for the 66 functions under contract (safe/nil, safe/index, safe/slice, safe/makelen, safe/mapnil, safe/div, safe/assert, explicit panics, decreases for counted loops) for all object shapes and all API failures (every external call may fail with unconstrained outputs); RunOnce re-establishes the controller invariant whenever it returns nil, so the next scan starts from a valid state; errors other than not-in-group are contained per group.", ref="§7 C20",
   note="Known finding F7: RunOnce also stops the controller when the provider cannot be rebuilt or a cloud group vanished (recorded, not repaired). providerIDToInstanceID / GetInstance / Refresh / RegisterNodeGroups and the fleet path are not yet under contract (F4 pending). Well-formedness of successful SDK outputs is assumed where dereferenced (listed per contract). Timers fire / Sleep returns: assumed. "),
}

pending_reason = "not claimed in this build: the contracts for the functions this property depends on are not yet all discharged (work in progress; see DESIGN.md §7 for the plan)"

props = [json.loads(l)["id"] for l in open("/verif/properties.jsonl")]
hooks_commits = subprocess.run(["git","-C","/repo","log","--format=%h","--grep=^verif:"],capture_output=True,text=True).stdout.split()

m = {
 "version": 1,
 "setup_cmd": "cd /verif/engine && GOFLAGS=-mod=mod GOPROXY=off GOSUMDB=off GOTOOLCHAIN=local go build -o ../bin/govc .",
 "hooks": {
   "guard": "verif",
   "enable": "go build -tags verif ./...   (the tag only adds comment-only files pkg/*/verif_contracts.go; govc loads /repo with -tags=verif)",
   "baseline_off_cmd": "cd /repo && GOFLAGS=-mod=mod GOPROXY=off GOSUMDB=off GOTOOLCHAIN=local go test -json -vet=off -count=1 -timeout 25m ./...",
   "source_commits": hooks_commits,
   "add_only": True,
 },
 "engines": [{"name": "govc", "path": "/verif/engine", "serves_properties": sorted(claimed), "kind_free_text": "contract-based deductive verifier for a Go subset written for this task: go/packages + go/ssa -> VCs -> SMT (z3, cvc5)"}],
 "checks": [],
 "notes": "All checks: ./check <id> quick|thorough. Exit 0 held / 1 VIOLATION / 2 tree does not load. Known findings: /verif/known-findings.json.",
 "not_applicable": [],
}
for p in props:
    if p in claimed:
        c = claimed[p]
        m["checks"].append({
          "property_id": p,
          "quick_cmd": "./check %s quick" % p,
          "thorough_cmd": "./check %s thorough" % p,
          "evidence_file": "/verif/evidence/%s.json" % p,
          "replay_cmd_template": "./bin/govc replay -file {path}",
          "engine": "govc",
          "level_claimed": {"category": c.get("category","proof"), "text": c["text"], "design_ref": c["ref"]},
          "level_note": c["note"] + GLOBAL_NOTE,
          "technique": TECH,
        })
    else:
        m["not_applicable"].append({"property_id": p, "reason": pending_reason})
json.dump(m, open("/verif/MANIFEST.json","w"), indent=1)
print("claimed:", sorted(claimed), "pending:", len(m["not_applicable"]))
