#!/usr/bin/env python3
"""Regenerates /verif/MANIFEST.json from the table below (kept in one place so it stays valid)."""
import json, subprocess

TECH = "contracts (requires/ensures/invariant/modifies as //@ comments keyed by function) + weakest-precondition VCs generated over go/ssa of /repo's working tree, each obligation discharged by z3-new 5.1.0 / z3 4.8.12 / cvc5 1.0 (raced)"
GLOBAL_NOTE = ("Trusted: govc (the VC generator), go/ssa, the SMT solvers; assumed contracts on dependencies (client-go, AWS SDK, time, strconv, sort, fmt) listed in each evidence file; "
  "integers are mathematical (no wrap-around), time.Time is an unbounded ns count, float64 is the reals; logging/metrics calls are effect-free; no goroutine interleavings (listers return arbitrary lists).")

claimed = {
 "C15": dict(
   text="Proof, for every node object, taint list (any length/order), effect and API failure: AddToBeRemovedTaint sends the fetched object only if it did not carry the escalator taint when fetched (never re-stamped), with the fetched taints in order plus exactly one new taint (key, defaulted effect, current Unix time); DeleteToBeRemovedTaint sends it only if it carried the taint and removes exactly the first such taint (swap with last), keeping every other one; both write nothing else of any Node object (syntactic frame over all v1/metav1 field arrays). 30 obligations on the two real functions.",
   ref="§7 C15",
   note="Get returns a deep-fresh copy whose taints are recorded by the got* spec functions (assumed contract on NodeInterface.Get); Update never mutates the object sent; fmt.Sprint(int64) is injective decimal formatting (assumed); history part (later scale-downs cannot restart the grace period) follows because the check is made on the freshly fetched object on every call. " + GLOBAL_NOTE),
 "C16": dict(
   text="Proof (validator half), for every NodeGroupOptions value: if ValidateNodeGroup returns no problem then name/label/cloud group are non-empty, 0 < lower < upper < scale-up threshold, 0 <= slow <= fast, 0 < soft < hard, cool-down > 0, (0 <= min < max or min = max = 0), taint effect/lifecycle/max_node_age valid. Nine tagged postconditions on the real function, its checkThat closure and the duration getters under contract. The decoding half (same configuration as YAML or JSON decodes to the same options, every documented key honoured) is NOT decided: it is reflection over struct tags inside encoding/json and k8s yaml, which no contract on escalator code expresses.",
   ref="§7 C16, §9",
   note="time.ParseDuration is modelled by uninterpreted parseDurOK/parseDurVal (assumed contract); k8s.TaintEffectTypes holds exactly the three effects (precondition, established by package init and never written); private duration caches are zero on a freshly decoded configuration (precondition). Finding F5 (negative slow rate accepted) was found by post#2 and fixed in /repo (commit e368c23). YAML/JSON decoding: not applicable to this technique, stated here rather than claimed. " + GLOBAL_NOTE),
}

pending_reason = "not claimed in this build: the contracts for the functions this property depends on are not yet all discharged (work in progress; see DESIGN.md §7 for the plan)"

props = [json.loads(l)["id"] for l in open("/verif/properties.jsonl")]
hooks_commits = subprocess.run(["git","-C","/repo","log","--format=%h","--grep=^verif:"],capture_output=True,text=True).stdout.split()

m = {
 "version": 1,
 "setup_cmd": "cd /verif/engine && GOFLAGS=-mod=mod GOPROXY=off GOSUMDB=off GOTOOLCHAIN=local go build -o ../bin/govc .",
 "hooks": {
   "guard": "verif",
   "enable": "go build -tags verif ./...   (the tag only adds comment-only files pkg/*/verif_contracts.go; govc loads /repo with -tags=verif)",
   "baseline_off_cmd": "cd /repo && GOFLAGS=-mod=mod GOPROXY=off GOSUMDB=off GOTOOLCHAIN=local go test -json -vet=off -count=1 -timeout 25m ./...",
   "source_commits": hooks_commits,
   "add_only": True,
 },
 "engines": [{"name": "govc", "path": "/verif/engine", "serves_properties": sorted(claimed), "kind_free_text": "contract-based deductive verifier for a Go subset written for this task: go/packages + go/ssa -> VCs -> SMT (z3, cvc5)"}],
 "checks": [],
 "notes": "All checks: ./check <id> quick|thorough. Exit 0 held / 1 VIOLATION / 2 tree does not load. Known findings: /verif/known-findings.json.",
 "not_applicable": [],
}
for p in props:
    if p in claimed:
        c = claimed[p]
        m["checks"].append({
          "property_id": p,
          "quick_cmd": "./check %s quick" % p,
          "thorough_cmd": "./check %s thorough" % p,
          "evidence_file": "/verif/evidence/%s.json" % p,
          "replay_cmd_template": "./bin/govc replay -file {path}",
          "engine": "govc",
          "level_claimed": {"category": c.get("category","proof"), "text": c["text"], "design_ref": c["ref"]},
          "level_note": c["note"],
          "technique": TECH,
        })
    else:
        m["not_applicable"].append({"property_id": p, "reason": pending_reason})
json.dump(m, open("/verif/MANIFEST.json","w"), indent=1)
print("claimed:", sorted(claimed), "pending:", len(m["not_applicable"]))
