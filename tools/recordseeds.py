#!/usr/bin/env python3
"""recordseeds.py <selftest log> [more logs...]: write seeded/RESULTS.md and add a `checked` entry to every seeded meta.json
(which command was run, what it reported). Later logs override earlier ones for the same mutant."""
import sys, json, re, os, subprocess, datetime
res = {}
via = {}
for lf in sys.argv[1:]:
    for l in open(lf).read().split('\n'):
        m = re.match(r'\s+(MISSED )?((seeded|selftest)/\S+?)(:| *$)(.*)', l)
        if not m:
            continue
        missed, path, rest = m.group(1), m.group(2), m.group(5)
        via[path] = 'trymutant' if 'trymutant' in os.path.basename(lf) else 'selftest'
        if missed:
            res[path] = ('missed', [])
        elif 'patch failed' in rest:
            res[path] = ('patch-failed', [])
        else:
            obs = [re.sub(r'\[(unknown|timeout|sat|error)\]$', '', o.strip()) for o in rest.replace(' detected by ', '').split(', ') if o.strip() and o.strip() != '…']
            res[path] = ('detected', obs)
import glob
for mp in glob.glob('/verif/seeded/C*/m*/meta.json'):
    meta = json.load(open(mp))
    if meta.get('expect') == 'miss':
        res['seeded/' + '/'.join(mp.split('/')[-3:-1])] = ('missed', [])
head = subprocess.run(['git', '-C', '/repo', 'log', '-1', '--format=%h'], capture_output=True, text=True).stdout.strip()
vhead = subprocess.run(['git', '-C', '/verif', 'log', '-1', '--format=%h'], capture_output=True, text=True).stdout.strip()
rows = []
for path in sorted(res):
    st, obs = res[path]
    mp = os.path.join('/verif', path, 'meta.json')
    meta = json.load(open(mp)) if os.path.exists(mp) else {}
    prop = meta.get('property', path.split('/')[1][:3])
    if os.path.exists(mp) and path.startswith('seeded/'):
        meta['checked'] = {
            'how': ('applied to a snapshot of /repo through go/packages overlay; `govc selftest -props %s` = the quick check of %s on the changed tree (obligation timeout 10 s); then undone' % (prop, prop)) if via.get(path) != 'trymutant' else ('`tools/trymutant.sh %s %s`: patch applied to /repo\'s working tree, `./check %s quick` run on it (obligation timeout 40 s), patch undone' % (prop, path.split('/')[-1], prop)),
            'result': st, 'failing_obligations': obs[:6],
            'confirmed_independently': 'tools/confirm_seeded.sh: builds, full suite passes with the change, demo fails with it and passes without (confirmed.txt)',
        }
        json.dump(meta, open(mp, 'w'), indent=1)
    summ = re.sub(r'\s*\(pkg/[^)]*\)', '', meta.get('summary', '').replace('|', '/').split('. ')[0])
    if len(summ) > 160:
        summ = summ[:157] + '…'
    if st == 'detected':
        by = '`' + obs[0] + '`' + (' (+%d)' % (len(obs) - 1) if len(obs) > 1 else '')
    elif st == 'missed':
        by = '**missed**' + (' — expected: ' + meta.get('why_miss', 'outside the technique') if meta.get('expect') == 'miss' else '')
    else:
        by = st
    rows.append('| %s | %s | %s |' % (path.replace('seeded/', '').replace('selftest/', 'canary '), summ, by))
out = ['# Seeded changes and canaries: what the checks reported', '',
       'Produced by `tools/recordseeds.py` from `govc selftest` logs; /repo at %s, /verif at %s.' % (head, vhead), '',
       '| change | what it does | caught by (first failing obligation) |', '|---|---|---|'] + rows
open('/verif/seeded/RESULTS.md', 'w').write('\n'.join(out) + '\n')
print(len(rows), 'rows;', sum(1 for p in res if res[p][0] == 'missed'), 'missed')
