package main

import (
	"fmt"
	"go/constant"
	"go/types"
	"sort"
	"strings"
)

// TV is a translated spec value: a symbolic value plus (when known) its Go type.
type TV struct {
	V Val
	T types.Type // nil for pure spec values
}

// TEnv is the environment a spec expression is translated in.
type TEnv struct {
	v         *FnVerifier
	st        *State
	old       *TEnv // environment for old(...); nil = self
	vars      map[string]TV
	bound     map[string]TV
	pkg       string // package path whose scope resolves identifiers
	quant     int
	nowOld    Term // allocation clock of the pre-state (for fresh())
	resolve   func(name string) (TV, bool)
	loopEntry *TEnv // environment at loop entry, for entry(...)
}

func (te *TEnv) clone() *TEnv {
	n := *te
	n.vars = map[string]TV{}
	for k, x := range te.vars {
		n.vars[k] = x
	}
	n.bound = map[string]TV{}
	for k, x := range te.bound {
		n.bound[k] = x
	}
	return &n
}

type specErr struct{ msg string }

func (e specErr) Error() string { return e.msg }

func sfail(format string, args ...interface{}) {
	panic(specErr{fmt.Sprintf(format, args...)})
}

func (te *TEnv) quiet() bool { return te.quant > 0 }

func (te *TEnv) bool(e Expr) Term {
	tv := te.tr(e)
	t, ok := tv.V.(Term)
	if !ok || t.Sort != SBool {
		sfail("expected a boolean: %s", e)
	}
	return t
}

func (te *TEnv) term(e Expr) Term {
	tv := te.tr(e)
	t, ok := tv.V.(Term)
	if !ok {
		if c, isC := tv.V.(*ClosureV); isC {
			return c.Term
		}
		sfail("expected a scalar: %s (got %T)", e, tv.V)
	}
	return t
}

func numUnify(a, b Term) (Term, Term) {
	if a.Sort == SInt && b.Sort == SReal {
		return ToReal(a), b
	}
	if a.Sort == SReal && b.Sort == SInt {
		return a, ToReal(b)
	}
	if a.Sort != b.Sort {
		if a.S == "null" {
			return ZeroOf(b.Sort), b
		}
		if b.S == "null" {
			return a, ZeroOf(a.Sort)
		}
	}
	return a, b
}

func (te *TEnv) tr(e Expr) TV {
	v := te.v
	switch x := e.(type) {
	case EInt:
		return TV{IntLit(x.V), nil}
	case EBig:
		return TV{Term{x.V, SInt}, nil}
	case EReal:
		return TV{Term{x.V, SReal}, nil}
	case EBool:
		return TV{BoolLit(x.V), nil}
	case EStr:
		return TV{v.ctx.StrLit(x.V), nil}
	case EIdent:
		return te.ident(x.Name)
	case EOld:
		if te.old == nil {
			return te.tr(x.X)
		}
		o := *te.old
		o.bound = te.bound
		o.quant = te.quant
		return o.tr(x.X)
	case EUn:
		switch x.Op {
		case "!":
			return TV{Not(te.bool(x.X)), nil}
		case "-":
			t := te.term(x.X)
			return TV{T(t.Sort, "(- %s)", t.S), nil}
		}
	case EIte:
		c := te.bool(x.C)
		a, b := te.tr(x.A), te.tr(x.B)
		if at, ok := a.V.(Term); ok {
			bt := b.V.(Term)
			at, bt = numUnify(at, bt)
			return TV{Ite(c, at, bt), a.T}
		}
		return TV{v.mergeVal(c, a.V, b.V), a.T}
	case EBin:
		return te.bin(x)
	case ESel:
		return te.sel(x)
	case EIdx:
		return te.index(x)
	case EUpd:
		a := te.term(x.X)
		if !a.Sort.IsArray() {
			sfail("update of non-array %s", x.X)
		}
		_, vs := a.Sort.ArrParts()
		return TV{Store(a, te.term(x.I), v.coerce(te.term(x.V), vs)), nil}
	case ESlc:
		base := te.tr(x.X)
		sl, ok := base.V.(SliceV)
		if !ok {
			sfail("slicing of non-slice %s", x.X)
		}
		lo := IntLit(0)
		if x.Lo != nil {
			lo = te.term(x.Lo)
		}
		hi := sl.L
		if x.Hi != nil {
			hi = te.term(x.Hi)
		}
		return TV{SliceV{B: sl.B, O: T(SInt, "(+ %s %s)", sl.O.S, lo.S), L: T(SInt, "(- %s %s)", hi.S, lo.S), C: T(SInt, "(- %s %s)", sl.C.S, lo.S), Elem: sl.Elem}, base.T}
	case ECall:
		return te.call(x)
	case EQuant:
		return te.quantifier(x)
	}
	sfail("cannot translate %s (%T)", e, e)
	return TV{}
}

func (te *TEnv) ident(name string) TV {
	v := te.v
	if b, ok := te.bound[name]; ok {
		return b
	}
	if x, ok := te.vars[name]; ok {
		return x
	}
	if te.resolve != nil {
		if x, ok := te.resolve(name); ok {
			return x
		}
	}
	if name == "nil" {
		return TV{TNull, nil}
	}
	if name == "now" {
		return TV{te.st.now, nil}
	}
	if g, ok := v.ghost(te.st, name); ok {
		// pointer-typed ghosts keep their Go type so that fields can be selected
		if gv := v.eng.db.Ghosts[name]; gv != nil && strings.HasPrefix(gv.Type, "*") {
			if gt, _ := v.eng.resolveType(v.fc.Pkg, gv.Type); gt != nil {
				return TV{g, gt}
			}
		}
		return TV{g, nil}
	}
	if c, ok := v.eng.db.Consts[name]; ok {
		return te.tr(c)
	}
	// Go package-level constant or variable
	if pkg := v.eng.pkgByPath[te.pkg]; pkg != nil {
		if obj := pkg.Types.Scope().Lookup(name); obj != nil {
			return te.goObject(obj)
		}
	}
	sfail("unknown identifier %q", name)
	return TV{}
}

func (te *TEnv) goObject(obj types.Object) TV {
	v := te.v
	switch o := obj.(type) {
	case *types.Const:
		val := o.Val()
		switch val.Kind() {
		case constant.Int:
			i, _ := constant.Int64Val(val)
			return TV{IntLit(i), o.Type()}
		case constant.String:
			return TV{v.ctx.StrLit(constant.StringVal(val)), o.Type()}
		case constant.Bool:
			return TV{BoolLit(constant.BoolVal(val)), o.Type()}
		case constant.Float:
			return TV{realLit(val), o.Type()}
		}
	case *types.Var:
		// package-level variable: value stored in the global's cell
		g := v.ctx.Const("global:"+o.Pkg().Path()+"."+o.Name(), SRef)
		v.ctx.Assert(T(SBool, "(and (< (birth %s) %s) (not (= %s null)))", g.S, v.now0.S, g.S))
		return TV{v.loadCell(te.st, g, o.Type(), te.quiet()), o.Type()}
	}
	sfail("unsupported Go object %s", obj)
	return TV{}
}

func (te *TEnv) bin(x EBin) TV {
	switch x.Op {
	case "&&":
		return TV{And(te.bool(x.X), te.bool(x.Y)), nil}
	case "||":
		return TV{Or(te.bool(x.X), te.bool(x.Y)), nil}
	case "==>":
		return TV{Implies(te.bool(x.X), te.bool(x.Y)), nil}
	case "<==>":
		return TV{Eq(te.bool(x.X), te.bool(x.Y)), nil}
	}
	if x.Op == "==" || x.Op == "!=" {
		xa0, xb0 := te.tr(x.X), te.tr(x.Y)
		if sa, ok := xa0.V.(SliceV); ok {
			if sb, ok := xb0.V.(SliceV); ok {
				// slices are equal (as values) when they view the same cells
				r := And(Eq(sa.L, sb.L), Or(Eq(sa.L, IntLit(0)), And(Eq(sa.B, sb.B), Eq(sa.O, sb.O))))
				if x.Op == "!=" {
					r = Not(r)
				}
				return TV{r, nil}
			}
		}
		// the address of a field is nil exactly when... never: the object was dereferenced to form it
		xa, xb := te.tr(x.X), te.tr(x.Y)
		if av, ok := xa.V.(AddrV); ok {
			if t, ok := xb.V.(Term); ok && t.S == "null" {
				r := Eq(av.Obj, TNull)
				if x.Op == "!=" {
					r = Not(r)
				}
				return TV{r, nil}
			}
		}
	}
	a, b := te.term(x.X), te.term(x.Y)
	a, b = numUnify(a, b)
	if a.Sort != b.Sort {
		sfail("operands of %s have sorts %s and %s in %s", x.Op, a.Sort, b.Sort, x)
	}
	switch x.Op {
	case "==":
		return TV{Eq(a, b), nil}
	case "!=":
		return TV{Not(Eq(a, b)), nil}
	case "<", "<=", ">", ">=":
		return TV{T(SBool, "(%s %s %s)", x.Op, a.S, b.S), nil}
	case "+", "-", "*":
		if a.Sort == SStr && x.Op == "+" {
			return TV{T(SStr, "(strcat %s %s)", a.S, b.S), nil}
		}
		return TV{T(a.Sort, "(%s %s %s)", x.Op, a.S, b.S), nil}
	case "/":
		if a.Sort == SReal {
			return TV{T(SReal, "(/ %s %s)", a.S, b.S), nil}
		}
		return TV{T(SInt, "(div %s %s)", a.S, b.S), nil}
	case "%":
		return TV{T(SInt, "(mod %s %s)", a.S, b.S), nil}
	}
	sfail("unknown operator %s", x.Op)
	return TV{}
}

// fieldByName finds a (possibly promoted) field; returns the index path.
func fieldByName(t types.Type, name string) ([]int, types.Type, bool) {
	obj, path, _ := types.LookupFieldOrMethod(t, true, nil, name)
	if obj == nil {
		// unexported fields need the package; retry over the struct directly
		st := structOf(t)
		if st == nil {
			return nil, nil, false
		}
		for i := 0; i < st.NumFields(); i++ {
			if st.Field(i).Name() == name {
				return []int{i}, st.Field(i).Type(), true
			}
		}
		for i := 0; i < st.NumFields(); i++ {
			if st.Field(i).Embedded() {
				if p, ft, ok := fieldByName(st.Field(i).Type(), name); ok {
					return append([]int{i}, p...), ft, true
				}
			}
		}
		return nil, nil, false
	}
	fv, ok := obj.(*types.Var)
	if !ok {
		return nil, nil, false
	}
	return path, fv.Type(), true
}

func (te *TEnv) sel(x ESel) TV {
	v := te.v
	// qualified identifier pkg.Name
	if id, ok := x.X.(EIdent); ok {
		if _, isVar := te.vars[id.Name]; !isVar {
			if _, isB := te.bound[id.Name]; !isB {
				if path, ok := v.eng.db.Imports[te.pkg][id.Name]; ok {
					if pkg := v.eng.pkgByPath[path]; pkg != nil {
						if obj := pkg.Types.Scope().Lookup(x.F); obj != nil {
							return te.goObject(obj)
						}
					}
					sfail("unknown %s.%s", id.Name, x.F)
				}
			}
		}
	}
	base := te.tr(x.X)
	if base.T == nil {
		sfail("field selection %s on a value without a Go type", x)
	}
	path, _, ok := fieldByName(base.T, x.F)
	if !ok {
		sfail("no field %s in %s", x.F, base.T)
	}
	cur := base
	for _, i := range path {
		cur = te.selField(cur, i)
	}
	return cur
}

func (te *TEnv) selField(base TV, i int) TV {
	v := te.v
	st := structOf(base.T)
	if st == nil {
		sfail("selection on non-struct %s", base.T)
	}
	ft := st.Field(i).Type()
	switch b := base.V.(type) {
	case *StructV:
		return TV{b.Get(i), ft}
	case Term:
		if b.Sort != SRef {
			sfail("selection on non-reference")
		}
		return TV{v.loadField(te.st, b, deref(base.T), i, te.quiet()), ft}
	}
	sfail("selection on %T", base.V)
	return TV{}
}

func (te *TEnv) index(x EIdx) TV {
	v := te.v
	base := te.tr(x.X)
	switch b := base.V.(type) {
	case SliceV:
		i := te.term(x.I)
		ref := elemRef(b, i)
		return TV{v.loadCell(te.st, ref, b.Elem, te.quiet()), b.Elem}
	case Term:
		if b.Sort.IsArray() {
			return TV{Select(b, te.term(x.I)), nil}
		}
		if base.T != nil {
			if m, ok := base.T.Underlying().(*types.Map); ok {
				hasN, valN, ks, vs, _ := mapArrays(base.T)
				k := te.term(x.I)
				if vs == "" && kindOf(m.Elem()) == KSlice {
					// m[k] of a slice-valued map is left unspecified in specs when the key is absent
					// (every use is guarded by has(m, k)); an ite here would defeat the at-patterns
					comp := func(suf string, s Sort) Term {
						return Select(Select(v.arr(te.st, valN+suf, ArrSort(SRef, ArrSort(ks, s))), b), k)
					}
					return TV{SliceV{B: comp(".b", SRef), O: comp(".o", SInt), L: comp(".l", SInt), C: comp(".c", SInt), Elem: m.Elem().Underlying().(*types.Slice).Elem()}, m.Elem()}
				}
				if vs == "" {
					sfail("map values of %s are not modelled", m.Elem())
				}
				has := Select(Select(v.arr(te.st, hasN, ArrSort(SRef, ArrSort(ks, SBool))), b), k)
				raw := Select(Select(v.arr(te.st, valN, ArrSort(SRef, ArrSort(ks, vs))), b), k)
				return TV{Ite(has, raw, ZeroOf(vs)), m.Elem()}
			}
		}
	}
	sfail("indexing of %s", x.X)
	return TV{}
}

func (te *TEnv) quantifier(x EQuant) TV {
	v := te.v
	n := te.clone()
	n.quant++
	var decls []string
	var syms []string
	for _, qv := range x.Vars {
		ty := qv.Type
		if ty == "" {
			ty = "int"
		}
		gt, s := v.eng.resolveType(te.pkg, ty)
		v.eng.qn++
		sym := fmt.Sprintf("%s!q%d", qv.Name, v.eng.qn)
		decls = append(decls, fmt.Sprintf("(%s %s)", Sym(sym), s))
		syms = append(syms, Sym(sym))
		n.bound[qv.Name] = TV{Term{Sym(sym), s}, gt}
	}
	body := n.bool(x.Body)
	q := "exists"
	if x.All {
		q = "forall"
	}
	pat := ""
	if len(x.Trig) > 0 {
		var ps []string
		for _, tr := range x.Trig {
			ps = append(ps, n.term(tr).S)
		}
		pat = " :pattern (" + strings.Join(ps, " ") + ")"
		return TV{T(SBool, "(%s (%s) (! %s%s))", q, strings.Join(decls, " "), body.S, pat), nil}
	}
	// default triggers: element addresses at(b,o,v) mentioning the bound variable; these do
	// not depend on the heap version, so instantiation works across stores and havocs
	if pats := atPatterns(body.S, syms); len(pats) > 0 {
		return TV{T(SBool, "(%s (%s) (! %s :pattern (%s)))", q, strings.Join(decls, " "), body.S, strings.Join(pats, " ")), nil}
	}
	return TV{T(SBool, "(%s (%s) %s)", q, strings.Join(decls, " "), body.S), nil}
}

// atPatterns finds, for every bound symbol, a term (at X Y sym) in body whose X and Y
// mention no bound symbol. Returns nil unless every symbol is covered.
func atPatterns(body string, syms []string) []string {
	var pats []string
	seen := map[string]bool{}
	for _, sym := range syms {
		found := ""
		idx := 0
		for {
			i := strings.Index(body[idx:], "(at ")
			if i < 0 {
				break
			}
			start := idx + i
			end := matchParen(body, start)
			if end < 0 {
				break
			}
			term := body[start : end+1]
			idx = start + 4
			if !strings.HasSuffix(term, " "+sym+")") || strings.Contains(term, "(ite ") {
				continue
			}
			head := term[:len(term)-len(sym)-2]
			clean := true
			for _, s2 := range syms {
				if strings.Contains(head, s2) {
					clean = false
				}
			}
			if clean {
				found = term
				break
			}
		}
		if found == "" {
			return nil
		}
		if !seen[found] {
			seen[found] = true
			pats = append(pats, found)
		}
	}
	return pats
}

func (te *TEnv) call(x ECall) TV {
	v := te.v
	arg := func(i int) Expr {
		if i >= len(x.Args) {
			sfail("%s: missing argument %d", x.F, i)
		}
		return x.Args[i]
	}
	switch x.F {
	case "entry":
		// entry(e): the value of e when the loop was entered
		if te.loopEntry == nil {
			return te.tr(arg(0))
		}
		o := *te.loopEntry
		o.bound = te.bound
		o.quant = te.quant
		return o.tr(arg(0))
	case "len":
		a := te.tr(arg(0))
		switch s := a.V.(type) {
		case SliceV:
			return TV{s.L, nil}
		case Term:
			if s.Sort == SStr {
				return TV{T(SInt, "(strlen %s)", s.S), nil}
			}
		}
		sfail("len of %s", arg(0))
	case "cap":
		a := te.tr(arg(0))
		if s, ok := a.V.(SliceV); ok {
			return TV{s.C, nil}
		}
		sfail("cap of %s", arg(0))
	case "base":
		a := te.tr(arg(0))
		if s, ok := a.V.(SliceV); ok {
			return TV{s.B, nil}
		}
		sfail("base of %s", arg(0))
	case "off":
		a := te.tr(arg(0))
		if s, ok := a.V.(SliceV); ok {
			return TV{s.O, nil}
		}
		sfail("off of %s", arg(0))
	case "fresh":
		t := te.term(arg(0))
		now := te.nowOld
		if te.old != nil {
			now = te.old.st.now
		}
		return TV{T(SBool, "(and (>= (birth %s) %s) (not (= %s null)))", t.S, now.S, t.S), nil}
	case "unfold":
		// unfold(f(args)): the definition of the (recursive) opaque spec f, instantiated at these arguments
		c, ok := arg(0).(ECall)
		if !ok {
			sfail("unfold wants a call of an opaque spec function")
		}
		name := c.F
		if i := strings.LastIndex(name, "."); i >= 0 {
			if _, ok := v.eng.db.Specs[name]; !ok {
				name = name[i+1:]
			}
		}
		sf, ok := v.eng.db.Specs[name]
		if !ok || !sf.Opaque {
			sfail("unfold: %s is not an opaque spec function", c.F)
		}
		args := make([]TV, len(c.Args))
		for i, a := range c.Args {
			args[i] = te.tr(a)
		}
		if te.quant > 0 {
			sfail("unfold cannot be used under a quantifier")
		}
		_, inst := te.opaqueApp(sf, args, true)
		v.ctx.Assert(inst) // an instance of the definition: always true
		return TV{TTrue, nil}
	case "mkslice":
		// mkslice(base, off, len, "[]T"): a slice value from ghost components
		name, ok := arg(3).(EStr)
		if !ok {
			sfail("mkslice wants a type name string")
		}
		gt := v.eng.goType(te.pkg, name.V)
		if gt == nil {
			sfail("mkslice: unknown type %s", name.V)
		}
		st, ok := gt.Underlying().(*types.Slice)
		if !ok {
			sfail("mkslice: %s is not a slice type", name.V)
		}
		l := te.term(arg(2))
		return TV{SliceV{B: te.term(arg(0)), O: te.term(arg(1)), L: l, C: l, Elem: st.Elem()}, gt}
	case "birth":
		return TV{T(SInt, "(birth %s)", te.term(arg(0)).S), nil}
	case "allocated":
		// allocated(r): r existed in the old state
		t := te.term(arg(0))
		now := te.st.now
		if te.old != nil {
			now = te.old.st.now
		}
		return TV{T(SBool, "(< (birth %s) %s)", t.S, now.S), nil}
	case "min", "max":
		a, b := numUnify(te.term(arg(0)), te.term(arg(1)))
		return TV{minmax(x.F == "max", a, b), nil}
	case "real":
		return TV{ToReal(te.term(arg(0))), nil}
	case "ceil":
		t := ToReal(te.term(arg(0)))
		if te.quant == 0 {
			return TV{v.ceilOf(t), nil}
		}
		v.ctx.Declare("ceilI", []Sort{SReal}, SInt)
		return TV{T(SReal, "(to_real (ceilI %s))", t.S), nil}
	case "floor":
		t := ToReal(te.term(arg(0)))
		return TV{T(SReal, "(to_real (to_int %s))", t.S), nil}
	case "trunc":
		t := ToReal(te.term(arg(0)))
		return TV{v.truncOf(t), nil}
	case "isnil":
		t := te.term(arg(0))
		return TV{Eq(t, ZeroOf(t.Sort)), nil}
	case "has":
		m := te.tr(arg(0))
		if m.T == nil {
			a := m.V.(Term)
			return TV{Select(a, te.term(arg(1))), nil}
		}
		hasN, _, ks, _, _ := mapArrays(m.T)
		return TV{Select(Select(v.arr(te.st, hasN, ArrSort(SRef, ArrSort(ks, SBool))), m.V.(Term)), te.term(arg(1))), nil}
	case "typeis":
		t := te.term(arg(0))
		name, ok := arg(1).(EStr)
		if !ok {
			sfail("typeis wants a type name string")
		}
		gt := v.eng.goType(te.pkg, name.V)
		if gt == nil {
			sfail("typeis: unknown type %s", name.V)
		}
		return TV{T(SBool, "(= (itag %s) %d)", t.S, v.eng.tags.tag(gt)), nil}
	case "isclosure":
		// isclosure(f, "pkg.Outer$1", c1, c2, ...): f is the function literal Outer$1 made with exactly
		// these captured values (in the order the literal captures them)
		name, ok := arg(1).(EStr)
		if !ok {
			sfail("isclosure wants a function key string")
		}
		fval := te.tr(arg(0)).V
		if ft, isT := fval.(Term); isT {
			// a literal that captures nothing is a plain function value
			if fn := v.fnTerms[ft.S]; fn != nil && v.eng.funcKey(fn) == name.V && len(x.Args) == 2 {
				return TV{TTrue, nil}
			}
			return TV{TFalse, nil}
		}
		cv, isC := fval.(*ClosureV)
		if !isC || v.eng.funcKey(cv.Fn) != name.V {
			return TV{TFalse, nil}
		}
		if len(cv.Bindings) != len(x.Args)-2 {
			sfail("isclosure: %s captures %d variables, %d given", name.V, len(cv.Bindings), len(x.Args)-2)
		}
		var eqs []Term
		for i, b := range cv.Bindings {
			bt, isT := b.(Term)
			if !isT {
				sfail("isclosure: captured variable %d of %s is not a scalar", i, name.V)
			}
			// a variable captured by reference: compare what it holds now
			if i < len(cv.Fn.FreeVars) {
				if pt, isP := cv.Fn.FreeVars[i].Type().Underlying().(*types.Pointer); isP && bt.Sort == SRef {
					if lv, isT := v.loadCell(te.st, bt, pt.Elem(), true).(Term); isT {
						bt = lv
					}
				}
			}
			eqs = append(eqs, Eq(bt, te.term(arg(2+i))))
		}
		return TV{And(eqs...), nil}
	case "isPlainErr":
		// an error made by errors.New / fmt.Errorf / pkg/errors (no richer dynamic type)
		t := te.term(arg(0))
		return TV{T(SBool, "(= (itag %s) %d)", t.S, v.eng.tags.tagName("plain-error")), nil}
	case "unbox":
		// unbox(i, "T"): the T stored in interface value i
		t := te.term(arg(0))
		name, ok := arg(1).(EStr)
		if !ok {
			sfail("unbox wants a type name string")
		}
		gt := v.eng.goType(te.pkg, name.V)
		if gt == nil {
			sfail("unbox: unknown type %s", name.V)
		}
		_, un, _, s, scalar := v.ifaceFns(gt)
		if !scalar {
			sfail("unbox of non-scalar type")
		}
		return TV{T(s, "(%s %s)", Sym(un), t.S), gt}
	case "box":
		tv := te.tr(arg(0))
		if tv.T == nil {
			sfail("box needs a typed value")
		}
		mk, _, _, _, ok := v.ifaceFns(tv.T)
		if !ok {
			sfail("box of non-scalar")
		}
		return TV{T(SIface, "(%s %s)", Sym(mk), tv.V.(Term).S), nil}
	case "deref":
		a := te.tr(arg(0))
		if a.T == nil {
			sfail("deref needs a typed pointer")
		}
		et := deref(a.T)
		if av, isAddr := a.V.(AddrV); isAddr {
			return TV{v.loadField(te.st, av.Obj, av.T, av.Field, te.quiet()), et}
		}
		return TV{v.loadCell(te.st, a.V.(Term), et, te.quiet()), et}
	case "elemref":
		a := te.tr(arg(0))
		if s, ok := a.V.(SliceV); ok {
			return TV{elemRef(s, te.term(arg(1))), nil}
		}
		sfail("elemref of non-slice")
	case "subref":
		// subref(x, "Field"): address of embedded struct field
		a := te.tr(arg(0))
		name := arg(1).(EStr).V
		path, ft, ok := fieldByName(a.T, name)
		if !ok || len(path) != 1 {
			sfail("subref: no field %s", name)
		}
		return TV{v.subRef(a.V.(Term), deref(a.T), path[0]), types.NewPointer(ft)}
	}
	// spec function (optionally package-qualified)
	if sf, ok := v.eng.db.Specs[x.F]; ok {
		return te.specCall(sf, x)
	}
	if i := strings.LastIndex(x.F, "."); i >= 0 {
		if sf, ok := v.eng.db.Specs[x.F[i+1:]]; ok {
			return te.specCall(sf, x)
		}
	}
	sfail("unknown function %s in specification", x.F)
	return TV{}
}

func (te *TEnv) specCall(sf *SpecFunc, x ECall) TV {
	v := te.v
	if len(x.Args) != len(sf.Params) {
		sfail("%s expects %d arguments", sf.Name, len(sf.Params))
	}
	args := make([]TV, len(x.Args))
	for i, a := range x.Args {
		args[i] = te.tr(a)
		if gt, _ := v.eng.resolveType(sf.Pkg, sf.Params[i].Type); gt != nil {
			args[i].T = gt
		}
	}
	if sf.Body != nil && sf.Opaque {
		return te.opaqueCall(sf, args)
	}
	if sf.Body != nil {
		// macro expansion in the current heap
		n := &TEnv{v: v, st: te.st, old: te.old, vars: map[string]TV{}, bound: map[string]TV{}, pkg: sf.Pkg, quant: te.quant, nowOld: te.nowOld, loopEntry: te.loopEntry}
		for i, p := range sf.Params {
			n.vars[p.Name] = args[i]
		}
		// a macro body sees only its parameters (no capture of the caller's bound variables)
		v.eng.specDepth++
		if v.eng.specDepth > 40 {
			sfail("spec function %s: expansion too deep (recursive definitions need an uninterpreted spec + axioms)", sf.Name)
		}
		defer func() { v.eng.specDepth-- }()
		r := n.tr(sf.Body)
		if gt, _ := v.eng.resolveType(sf.Pkg, sf.Ret); gt != nil {
			r.T = gt
		}
		return r
	}
	// uninterpreted
	var sorts []Sort
	var ts []Term
	for i, p := range sf.Params {
		_, s := v.eng.resolveType(sf.Pkg, p.Type)
		sorts = append(sorts, s)
		ts = append(ts, v.coerce(args[i].V.(Term), s))
	}
	gt, rs := v.eng.resolveType(sf.Pkg, sf.Ret)
	name := "spec:" + sf.Name
	v.ctx.Declare(name, sorts, rs)
	v.usedSpecs(sf.Name)
	return TV{App(rs, Sym(name), ts...), gt}
}

func (v *FnVerifier) usedSpecs(name string) {
	if v.eng.specUsed == nil {
		v.eng.specUsed = map[string]bool{}
	}
	v.eng.specUsed[name] = true
}

// integer-valued reals are kept in the shape (to_real <int term>) so that truncation
// and comparison stay in integer arithmetic (solvers are weak on nested to_int).
func intForm(t Term) (string, bool) {
	if strings.HasSuffix(t.S, ".0") && !strings.ContainsAny(t.S, "() /") {
		return strings.TrimSuffix(t.S, ".0"), true
	}
	if strings.HasPrefix(t.S, "(to_real ") && strings.HasSuffix(t.S, ")") && matchParen(t.S, 0) == len(t.S)-1 {
		return t.S[len("(to_real ") : len(t.S)-1], true
	}
	return "", false
}

func minmax(isMax bool, a, b Term) Term {
	op := "<="
	if isMax {
		op = ">="
	}
	if ia, ok := intForm(a); ok {
		if ib, ok := intForm(b); ok {
			return T(SReal, "(to_real (ite (%s %s %s) %s %s))", op, ia, ib, ia, ib)
		}
	}
	return Ite(T(SBool, "(%s %s %s)", op, a.S, b.S), a, b)
}

// ceilOf: a fresh integer k with k-1 < x <= k, returned as (to_real k).
func (v *FnVerifier) ceilOf(x Term) Term {
	if i, ok := intForm(x); ok {
		return T(SReal, "(to_real %s)", i)
	}
	if v.ceils == nil {
		v.ceils = map[string]Term{}
	}
	v.ctx.Declare("ceilI", []Sort{SReal}, SInt)
	k := T(SInt, "(ceilI %s)", x.S)
	if _, ok := v.ceils[x.S]; !ok {
		// the defining property, instantiated for this argument
		v.ctx.Assert(T(SBool, "(and (< (to_real (- %s 1)) %s) (<= %s (to_real %s)))", k.S, x.S, x.S, k.S))
		v.ceils[x.S] = k
	}
	return T(SReal, "(to_real %s)", k.S)
}

// truncOf: Go's float-to-int conversion (toward zero).
func (v *FnVerifier) truncOf(x Term) Term {
	if i, ok := intForm(x); ok {
		return Term{i, SInt}
	}
	r := v.ctx.Fresh("trunc", SInt)
	v.ctx.Assert(T(SBool, "(and (=> (>= %s 0.0) (and (<= (to_real %s) %s) (< %s (to_real (+ %s 1))))) (=> (< %s 0.0) (and (< (to_real (- %s 1)) %s) (<= %s (to_real %s)))))",
		x.S, r.S, x.S, x.S, r.S, x.S, r.S, x.S, x.S, r.S))
	return r
}

// opaqueCall: f(args, versions of the heap arrays the body reads), with the definition
// available as a quantified axiom triggered on applications of f (so that big quantified
// bodies are atoms wherever they are only transported, not opened). Recursive opaque
// specs get no automatic axiom: their definition is instantiated with unfold(f(...)).
func (te *TEnv) opaqueCall(sf *SpecFunc, args []TV) TV {
	app, _ := te.opaqueApp(sf, args, false)
	return app
}

// flattenArg turns a spec argument into SMT terms (slices contribute base, off, len).
func flattenArg(v *FnVerifier, a TV, name string, i int) []Term {
	switch x := a.V.(type) {
	case Term:
		return []Term{x}
	case SliceV:
		return []Term{x.B, x.O, x.L}
	case *ClosureV:
		return []Term{x.Term}
	}
	sfail("opaque spec %s: argument %d has an unsupported shape (%T)", name, i, a.V)
	return nil
}

func (te *TEnv) opaqueApp(sf *SpecFunc, args []TV, unfold bool) (TV, Term) {
	v := te.v
	if v.opqDeps == nil {
		v.opqDeps = map[string][]string{}
		v.opqDone = map[string]bool{}
	}
	gtRet, retSort := v.eng.resolveType(sf.Pkg, sf.Ret)
	if retSort == "" {
		sfail("opaque spec %s must return a scalar", sf.Name)
	}
	// bound-variable environment for the definition
	mkEnv := func() (*TEnv, []string, []Term) {
		n := &TEnv{v: v, st: te.st, vars: map[string]TV{}, bound: map[string]TV{}, pkg: sf.Pkg, quant: 1, nowOld: te.nowOld}
		var decls []string
		var syms []Term
		for _, p := range sf.Params {
			gt, s := v.eng.resolveType(sf.Pkg, p.Type)
			mk := func(suffix string, s Sort) Term {
				v.eng.qn++
				sym := Term{Sym(fmt.Sprintf("%s%s!o%d", p.Name, suffix, v.eng.qn)), s}
				decls = append(decls, fmt.Sprintf("(%s %s)", sym.S, s))
				syms = append(syms, sym)
				return sym
			}
			if gt != nil && kindOf(gt) == KSlice {
				b, o, l := mk(".b", SRef), mk(".o", SInt), mk(".l", SInt)
				n.vars[p.Name] = TV{SliceV{B: b, O: o, L: l, C: l, Elem: gt.Underlying().(*types.Slice).Elem()}, gt}
			} else {
				n.vars[p.Name] = TV{mk("", s), gt}
			}
		}
		return n, decls, syms
	}
	if v.opqBusy[sf.Name] {
		// recursive occurrence while discovering the dependencies of this same function
		return TV{Term{"opq_discovery_dummy", retSort}, gtRet}, TTrue
	}
	deps, ok := v.opqDeps[sf.Name]
	if !ok {
		if v.opqBusy == nil {
			v.opqBusy = map[string]bool{}
		}
		v.opqBusy[sf.Name] = true
		n, _, _ := mkEnv()
		saved := v.rec
		v.rec = map[string]bool{}
		n.tr(sf.Body)
		for k := range v.rec {
			deps = append(deps, k)
		}
		sort.Strings(deps)
		v.rec = saved
		v.opqDeps[sf.Name] = deps
		v.opqBusy[sf.Name] = false
	}
	if v.rec != nil {
		for _, d := range deps {
			v.rec[d] = true
		}
	}
	var vers []Term
	var sorts []Sort
	for _, p := range sf.Params {
		gt, s := v.eng.resolveType(sf.Pkg, p.Type)
		if gt != nil && kindOf(gt) == KSlice {
			sorts = append(sorts, SRef, SInt, SInt)
		} else {
			sorts = append(sorts, s)
		}
	}
	for _, d := range deps {
		s := v.arrSort[d]
		var t Term
		if strings.HasPrefix(d, "G:") {
			t, _ = v.ghost(te.st, strings.TrimPrefix(d, "G:"))
		} else {
			t = v.arr(te.st, d, s)
		}
		vers = append(vers, t)
		sorts = append(sorts, s)
	}
	name := "opq:" + sf.Name
	v.ctx.Declare(name, sorts, retSort)
	var argTerms []Term
	for i, a := range args {
		for _, t := range flattenArg(v, a, sf.Name, i) {
			argTerms = append(argTerms, v.coerce(t, sorts[len(argTerms)]))
		}
	}
	app := App(retSort, Sym(name), append(argTerms, vers...)...)
	key := sf.Name
	for _, t := range vers {
		key += "|" + t.S
	}
	recursive := strings.Contains(sf.Body.String(), sf.Name+"(")
	if !recursive && !v.opqDone[key] {
		v.opqDone[key] = true
		n, decls, syms := mkEnv()
		body := n.tr(sf.Body).V.(Term)
		lhs := App(retSort, Sym(name), append(syms, vers...)...)
		body = v.coerce(body, retSort)
		if len(decls) > 0 {
			v.ctx.AssertRaw(fmt.Sprintf("(assert (forall (%s) (! (= %s %s) :pattern (%s))))", strings.Join(decls, " "), lhs.S, body.S, lhs.S))
		} else {
			v.ctx.Assert(Eq(lhs, body))
		}
	}
	var inst Term
	if unfold {
		// the definition, instantiated for these arguments
		n := &TEnv{v: v, st: te.st, vars: map[string]TV{}, bound: te.bound, pkg: sf.Pkg, quant: te.quant, nowOld: te.nowOld}
		for i, p := range sf.Params {
			a := args[i]
			if gt, _ := v.eng.resolveType(sf.Pkg, p.Type); gt != nil {
				a.T = gt
			}
			n.vars[p.Name] = a
		}
		body := v.coerce(n.tr(sf.Body).V.(Term), retSort)
		inst = Eq(app, body)
	}
	return TV{app, gtRet}, inst
}
