package main

import (
	"fmt"
)

// lemmaObligations: closed formulas `forall vars. hyps ==> concl` tagged with prop.
func (e *Engine) lemmaObligations(prop string) []*Obligation {
	var out []*Obligation
	for _, lm := range e.db.Lemmas {
		tagged := false
		for _, t := range lm.Tags {
			if t == prop {
				tagged = true
			}
		}
		if !tagged {
			continue
		}
		fc := &FuncContract{Key: "lemma/" + lm.Name, Pkg: lm.Pkg, Loops: map[int]*LoopSpec{}}
		v := &FnVerifier{eng: e, prop: prop, fc: fc, trusted: map[string]bool{}, callees: map[string]bool{}, inlined: map[string]bool{}}
		v.reset()
		func() {
			defer func() {
				if r := recover(); r != nil {
					o := &Obligation{Name: "lemma/" + lm.Name, Kind: "lemma", Func: fc.Key, Tags: lm.Tags, ctx: v.ctx, Reach: TTrue, Goal: TFalse,
						Pos: fmt.Sprintf("%s:%d", lm.File, lm.Line), Src: fmt.Sprint(r)}
					out = append(out, o)
				}
			}()
			env := &TEnv{v: v, st: v.entry, vars: map[string]TV{}, bound: map[string]TV{}, pkg: lm.Pkg, nowOld: v.now0}
			for _, qv := range lm.Vars {
				gt, s := e.resolveType(lm.Pkg, qv.Type)
				env.vars[qv.Name] = TV{v.ctx.Const("lemma."+qv.Name, s), gt}
			}
			for _, ax := range e.db.Axioms {
				if ax.HasTag(prop) {
					v.ctx.Assert(env.bool(ax.E))
				}
			}
			for _, h := range lm.Hyps {
				v.ctx.Assert(env.bool(h))
			}
			var goals []Term
			for _, c := range lm.Concl {
				goals = append(goals, env.bool(c))
			}
			o := v.oblige("lemma", "lemma/"+lm.Name, lm.Tags, TTrue, And(goals...), fmt.Sprintf("%s:%d", lm.File, lm.Line), "lemma "+lm.Name)
			out = append(out, o)
		}()
	}
	return out
}

type BoundedResult struct {
	Description string   `json:"description"`
	Cases       int      `json:"cases"`
	Known       []string `json:"known_finding_lines"`
	Violations  []string `json:"-"`
	Output      string   `json:"output,omitempty"`
}

// runBounded is filled in per property (float differentials).
func runBounded(verif, repo, prop string, seed int) *BoundedResult { return nil }

// tryReplay turns a counterexample into a run of the real code (per-property
// templates); returns whether the property oracle failed on the real code.
func tryReplay(verif, repo, prop string, o *Obligation, rp map[string]interface{}) (bool, string) {
	return false, "no replay template for this obligation; the model is recorded above"
}
