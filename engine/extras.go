package main

import (
	"encoding/json"
	"flag"
	"fmt"
	"os"
	"os/exec"
	"path/filepath"
	"strconv"
	"strings"
)

// lemmaObligations: closed formulas `forall vars. hyps ==> concl` tagged with prop.
func (e *Engine) lemmaObligations(prop string) []*Obligation {
	var out []*Obligation
	for _, lm := range e.db.Lemmas {
		tagged := false
		for _, t := range lm.Tags {
			if t == prop {
				tagged = true
			}
		}
		if !tagged {
			continue
		}
		fc := &FuncContract{Key: "lemma/" + lm.Name, Pkg: lm.Pkg, Loops: map[int]*LoopSpec{}}
		v := &FnVerifier{eng: e, prop: prop, fc: fc, trusted: map[string]bool{}, callees: map[string]bool{}, inlined: map[string]bool{}}
		v.reset()
		func() {
			defer func() {
				if r := recover(); r != nil {
					o := &Obligation{Name: "lemma/" + lm.Name, Kind: "lemma", Func: fc.Key, Tags: lm.Tags, ctx: v.ctx, Reach: TTrue, Goal: TFalse,
						Pos: fmt.Sprintf("%s:%d", lm.File, lm.Line), Src: fmt.Sprint(r)}
					out = append(out, o)
				}
			}()
			env := &TEnv{v: v, st: v.entry, vars: map[string]TV{}, bound: map[string]TV{}, pkg: lm.Pkg, nowOld: v.now0}
			for _, qv := range lm.Vars {
				gt, s := e.resolveType(lm.Pkg, qv.Type)
				env.vars[qv.Name] = TV{v.ctx.Const("lemma."+qv.Name, s), gt}
			}
			for _, ax := range e.db.Axioms {
				if ax.HasTag(prop) {
					v.ctx.Assert(env.bool(ax.E))
				}
			}
			for _, h := range lm.Hyps {
				v.ctx.Assert(env.bool(h))
			}
			var goals []Term
			for _, c := range lm.Concl {
				goals = append(goals, env.bool(c))
			}
			o := v.oblige("lemma", "lemma/"+lm.Name, lm.Tags, TTrue, And(goals...), fmt.Sprintf("%s:%d", lm.File, lm.Line), "lemma "+lm.Name)
			out = append(out, o)
		}()
	}
	return out
}

type BoundedResult struct {
	Description string   `json:"description"`
	Label       string   `json:"label"`
	Tests       []string `json:"tests"`
	Cases       int      `json:"cases"`
	Summary     []string `json:"summary_lines"`
	Known       []string `json:"known_finding_lines"`
	Violations  []string `json:"-"`
	Output      string   `json:"output,omitempty"`
}

// boundedHeader reads the `// verif:key value` lines of a bounded test file.
func boundedHeader(path string) map[string]string {
	h := map[string]string{}
	b, _ := os.ReadFile(path)
	for _, l := range strings.Split(string(b), "\n") {
		l = strings.TrimSpace(l)
		if strings.HasPrefix(l, "// verif:") {
			kv := strings.SplitN(strings.TrimPrefix(l, "// verif:"), " ", 2)
			if len(kv) == 2 {
				h[kv[0]] = strings.TrimSpace(kv[1])
			}
		}
	}
	return h
}

// runBoundedTest injects one /verif/bounded/*_test.go into its package with -overlay and runs it on the real code.
func runBoundedTest(repo, file string, thorough bool) (string, error) {
	h := boundedHeader(file)
	tmp, err := os.MkdirTemp("", "govc-bounded")
	if err != nil {
		return "", err
	}
	defer os.RemoveAll(tmp)
	ov := map[string]map[string]string{"Replace": {filepath.Join(repo, h["pkg"], "zz_verif_bounded_test.go"): file}}
	b, _ := json.Marshal(ov)
	os.WriteFile(filepath.Join(tmp, "ov.json"), b, 0o644)
	cmd := exec.Command("go", "test", "-v", "-overlay", filepath.Join(tmp, "ov.json"), "-vet=off", "-count=1", "-timeout", "600s", "-run", "^"+h["run"]+"$", "./"+h["pkg"]+"/")
	cmd.Dir = repo
	tier := "quick"
	if thorough {
		tier = "thorough"
	}
	cmd.Env = append(os.Environ(), "GOFLAGS=-mod=mod", "GOPROXY=off", "GOSUMDB=off", "GOTOOLCHAIN=local", "VERIF_TIER="+tier)
	out, err := cmd.CombinedOutput()
	return string(out), err
}

// runBounded: the bounded stand-ins of a property (float64 vs exact arithmetic), labelled bounded, never counted as proved.
func runBounded(verif, repo, prop string, seed int) *BoundedResult {
	files, _ := filepath.Glob(filepath.Join(verif, "bounded", "*_test.go"))
	var res *BoundedResult
	known := loadKnown(filepath.Join(verif, "known-findings.json"))
	for _, f := range files {
		h := boundedHeader(f)
		mine := false
		for _, p := range strings.Split(h["props"], ",") {
			if strings.TrimSpace(p) == prop {
				mine = true
			}
		}
		if !mine {
			continue
		}
		if res == nil {
			res = &BoundedResult{Label: "bounded", Description: "real float64 code against exact rational arithmetic on a finite grid (bound stated in the test file); a stand-in for the reals-for-float64 assumption of the proof, not part of it"}
		}
		base := strings.TrimSuffix(filepath.Base(f), "_test.go")
		res.Tests = append(res.Tests, f)
		out, err := runBoundedTest(repo, f, true)
		sawSummary := false
		nfail := 0
		seenKnown := map[string]bool{}
		for _, l := range strings.Split(out, "\n") {
			switch {
			case strings.HasPrefix(l, "VERIF-BOUNDED-KNOWN "):
				class := ""
				for _, w := range strings.Fields(l) {
					if strings.HasPrefix(w, "class=") {
						class = strings.TrimPrefix(w, "class=")
					}
				}
				name := "bounded/" + base + ":" + class
				listed := false
				for _, k := range known {
					if k.Property == prop && k.Status == "known" && k.Obligation == name {
						listed = true
						if seenKnown[name] {
							continue
						}
						seenKnown[name] = true
						line := fmt.Sprintf("KNOWN-FINDING: property=%s %s: %s [%s]", prop, name, k.What, strings.TrimPrefix(l, "VERIF-BOUNDED-KNOWN "))
						res.Known = append(res.Known, line)
					}
				}
				if !listed {
					nfail++
					res.Violations = append(res.Violations, boundedViolation(verif, prop, base, nfail, f, l))
				}
			case strings.HasPrefix(l, "VERIF-BOUNDED-FAIL "):
				nfail++
				res.Violations = append(res.Violations, boundedViolation(verif, prop, base, nfail, f, l))
			case strings.HasPrefix(l, "VERIF-BOUNDED "):
				sawSummary = true
				res.Summary = append(res.Summary, base+": "+strings.TrimPrefix(l, "VERIF-BOUNDED "))
				for _, w := range strings.Fields(l) {
					if strings.HasPrefix(w, "points=") {
						n, _ := strconv.Atoi(strings.TrimPrefix(w, "points="))
						res.Cases += n
					}
				}
			}
		}
		if (err != nil || !sawSummary) && nfail == 0 {
			// the test did not run to completion (does not compile against the changed tree, timed out, ...)
			res.Violations = append(res.Violations, boundedViolation(verif, prop, base, 0, f, "the bounded test did not complete: "+lastLines(out, 15)))
		}
	}
	return res
}

func lastLines(s string, n int) string {
	ls := strings.Split(strings.TrimSpace(s), "\n")
	if len(ls) > n {
		ls = ls[len(ls)-n:]
	}
	return strings.Join(ls, " | ")
}

func boundedViolation(verif, prop, base string, n int, file, line string) string {
	out := filepath.Join(verif, "replay", "out")
	os.MkdirAll(out, 0o755)
	path := filepath.Join(out, fmt.Sprintf("%s-bounded_%s_%d.json", prop, base, n))
	rp := map[string]interface{}{"property": prop, "obligation": "bounded/" + base, "kind": "bounded", "bounded_test": file, "failing_input": line,
		"how_to_replay": "govc replay -file " + path + "  (re-runs the test on the real code through go test -overlay)"}
	b, _ := json.MarshalIndent(rp, "", " ")
	os.WriteFile(path, b, 0o644)
	suffix := ""
	if n == 0 {
		suffix = " no-failing-input-found"
	}
	return fmt.Sprintf("VIOLATION property=%s replay=%s%s", prop, path, suffix)
}

// tryReplay turns a counterexample into a run of the real code (per-property
// templates); returns whether the property oracle failed on the real code.
func tryReplay(verif, repo, prop string, o *Obligation, rp map[string]interface{}) (bool, string) {
	return false, "no replay template for this obligation; the model is recorded above"
}

// cmdReplay re-runs what a replay file describes: a bounded test on the real code, a witness test, or the failed obligation.
func cmdReplay(args []string) {
	fs := flag.NewFlagSet("replay", flag.ExitOnError)
	file := fs.String("file", "", "replay file written by a check")
	repo := fs.String("repo", "/repo", "repository root")
	fs.Parse(args)
	b, err := os.ReadFile(*file)
	if err != nil {
		fmt.Fprintln(os.Stderr, err)
		os.Exit(2)
	}
	var rp map[string]interface{}
	if err := json.Unmarshal(b, &rp); err != nil {
		fmt.Fprintln(os.Stderr, err)
		os.Exit(2)
	}
	if t, ok := rp["bounded_test"].(string); ok {
		out, err := runBoundedTest(*repo, t, true)
		for _, l := range strings.Split(out, "\n") {
			if strings.HasPrefix(l, "VERIF-BOUNDED") || strings.HasPrefix(l, "--- ") || strings.HasPrefix(l, "FAIL") || strings.HasPrefix(l, "ok") {
				fmt.Println(l)
			}
		}
		if err != nil {
			os.Exit(1)
		}
		return
	}
	name, _ := rp["obligation"].(string)
	prop, _ := rp["property"].(string)
	fmt.Printf("replay: obligation %s of property %s\n", name, prop)
	if v, ok := rp["verifier_output"]; ok {
		fmt.Printf("recorded verifier output: %v\n", v)
	}
	fn := name
	if i := strings.Index(fn, "/"); i > 0 {
		fn = fn[:i]
	}
	if strings.HasPrefix(name, "generation:") {
		fn = strings.TrimPrefix(name, "generation:")
	}
	e, err := Load(*repo, nil)
	if err != nil {
		fmt.Println("the tree does not load:", err)
		os.Exit(2)
	}
	e.loadBaseLocals(verifRoot)
	res := e.VerifyFunc(fn, prop)
	if res.Err != "" {
		fmt.Printf("STILL FAILS: %s cannot be brought under the generator: %s\n", fn, res.Err)
		os.Exit(1)
	}
	Discharge(res.Obls, 60, 10, false)
	found, failed := false, false
	for _, o := range res.Obls {
		base := o.Name
		if base == name || strings.HasPrefix(base, name+"@") {
			found = true
			fmt.Printf("%s: %s (%s, %d ms) at %s\n", o.Name, o.Status, o.Backend, o.Millis, o.Pos)
			if o.Status != "unsat" {
				failed = true
			}
		}
	}
	if !found {
		fmt.Println("the obligation is not generated from the current tree (it was: the clause or the code it speaks about is gone)")
		os.Exit(1)
	}
	if failed {
		fmt.Println("STILL FAILS on the current tree")
		os.Exit(1)
	}
	fmt.Println("discharged on the current tree")
}
