package main

import (
	"bytes"
	"context"
	"os/exec"
	"strconv"
	"strings"
	"sync"
	"time"
)

type backend struct {
	name string
	argv func(timeoutS int) []string
}

var backends = []backend{
	{"z3-new-5.1.0", func(t int) []string { return []string{"z3-new", "-in", "-T:" + itoa(t)} }},
	{"z3-4.8.12", func(t int) []string { return []string{"z3", "-in", "-T:" + itoa(t)} }},
	{"cvc5-1.0", func(t int) []string {
		return []string{"cvc5", "--lang=smt2", "--tlimit=" + itoa(t*1000), "-"}
	}},
}

func itoa(n int) string { return strconv.Itoa(n) }

type solveResult struct {
	status  string // unsat sat unknown timeout error
	backend string
	millis  int64
	output  string
}

func runBackend(ctx context.Context, b backend, query string, timeoutS int) solveResult {
	start := time.Now()
	argv := b.argv(timeoutS)
	cctx, cancel := context.WithTimeout(ctx, time.Duration(timeoutS+2)*time.Second)
	defer cancel()
	cmd := exec.CommandContext(cctx, argv[0], argv[1:]...)
	cmd.Stdin = strings.NewReader(query)
	var out bytes.Buffer
	cmd.Stdout = &out
	cmd.Stderr = &out
	_ = cmd.Run()
	ms := time.Since(start).Milliseconds()
	text := out.String()
	first := ""
	for _, ln := range strings.Split(text, "\n") {
		ln = strings.TrimSpace(ln)
		if ln == "" || strings.HasPrefix(ln, "WARNING") || strings.HasPrefix(ln, "(warning") {
			continue
		}
		first = ln
		break
	}
	res := solveResult{backend: b.name, millis: ms, output: text}
	switch {
	case first == "unsat":
		res.status = "unsat"
	case first == "sat":
		res.status = "sat"
	case first == "unknown":
		res.status = "unknown"
	case first == "timeout" || cctx.Err() != nil || strings.Contains(text, "interrupted by timeout") || strings.Contains(text, "cvc5 interrupted"):
		res.status = "timeout"
	default:
		res.status = "error"
	}
	return res
}

// solveRace runs all back ends on the query; the first definitive answer
// (unsat or sat) wins. With needTwo, waits for a second agreeing unsat.
func solveRace(query string, timeoutS int, needTwo bool) (solveResult, []solveResult) {
	ctx, cancel := context.WithCancel(context.Background())
	defer cancel()
	ch := make(chan solveResult, len(backends))
	for _, b := range backends {
		go func(b backend) { ch <- runBackend(ctx, b, query, timeoutS) }(b)
	}
	var all []solveResult
	var win *solveResult
	for i := 0; i < len(backends); i++ {
		r := <-ch
		all = append(all, r)
		if r.status == "unsat" || r.status == "sat" {
			if win == nil {
				rr := r
				win = &rr
				if !needTwo || r.status == "sat" {
					break
				}
			} else if r.status == win.status {
				break
			}
		}
	}
	if win != nil {
		return *win, all
	}
	// nothing definitive: prefer "unknown" over "timeout" over "error"
	best := all[0]
	rank := map[string]int{"unknown": 0, "timeout": 1, "error": 2}
	for _, r := range all {
		if rank[r.status] < rank[best.status] {
			best = r
		}
	}
	return best, all
}

// Discharge solves all obligations in parallel.
func Discharge(obls []*Obligation, timeoutS int, workers int, needTwo bool) {
	var wg sync.WaitGroup
	sem := make(chan struct{}, workers)
	for _, o := range obls {
		wg.Add(1)
		sem <- struct{}{}
		go func(o *Obligation) {
			defer wg.Done()
			defer func() { <-sem }()
			extra := []string{}
			if o.Reach.S != "true" {
				extra = append(extra, "(assert "+o.Reach.S+")")
			}
			if !o.ExpectSat {
				extra = append(extra, "(assert (not "+o.Goal.S+"))")
			}
			q := o.ctx.Query(o.Mark, extra, true)
			t := timeoutS
			if o.ExpectSat && t > 3 {
				t = 3 // vacuity probes: only a quick `unsat` matters
			}
			win, all := solveRace(q, t, needTwo && !o.ExpectSat)
			o.Status, o.Backend, o.Millis = win.status, win.backend, win.millis
			if win.status == "sat" {
				o.Model = win.output
			}
			if win.status != "unsat" && win.status != "sat" {
				var sb strings.Builder
				for _, r := range all {
					sb.WriteString(r.backend + ": " + r.status + ": " + firstLines(r.output, 3) + "\n")
				}
				o.Output = sb.String()
			}
			if needTwo {
				for _, r := range all {
					if r.backend != win.backend && r.status == win.status {
						o.Second = r.backend
					}
				}
			}
		}(o)
	}
	wg.Wait()
}

func firstLines(s string, n int) string {
	ls := strings.Split(s, "\n")
	if len(ls) > n {
		ls = ls[:n]
	}
	return strings.Join(ls, " | ")
}
