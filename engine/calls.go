package main

import (
	"fmt"
	"go/token"
	"go/types"
	"os"
	"sort"
	"strings"

	"golang.org/x/tools/go/ssa"
)

// funcKey is the contract key of a function.
func (e *Engine) funcKey(fn *ssa.Function) string {
	if fn.Pkg != nil && e.firstParty(fn.Pkg.Pkg.Path()) {
		return fn.Pkg.Pkg.Name() + "." + fn.RelString(fn.Pkg.Pkg)
	}
	if fn.Parent() != nil && fn.Parent().Pkg != nil && e.firstParty(fn.Parent().Pkg.Pkg.Path()) {
		return fn.Parent().Pkg.Pkg.Name() + "." + fn.RelString(fn.Parent().Pkg.Pkg)
	}
	return fn.String()
}

func (e *Engine) firstParty(path string) bool {
	return strings.HasPrefix(path, "github.com/atlassian/escalator/")
}

func (e *Engine) ifaceKey(recv types.Type, m *types.Func) string {
	name := typeKey(recv)
	if n, ok := recv.(*types.Named); ok && n.Obj().Pkg() != nil {
		if e.firstParty(n.Obj().Pkg().Path()) {
			name = n.Obj().Pkg().Name() + "." + n.Obj().Name()
		}
	}
	return name + "." + m.Name()
}

var effectFreePkgs = []string{
	"github.com/sirupsen/logrus",
	"github.com/prometheus/client_golang/prometheus",
	"github.com/atlassian/escalator/pkg/metrics",
	"fmt", "errors", "github.com/pkg/errors", "context", "sync", "log",
}

var effectFreeFuncs = map[string]bool{
	"time.Sleep": true, "(*time.Ticker).Stop": true, "(*time.Timer).Stop": true,
	"time.NewTicker": true, "time.NewTimer": true, "(time.Duration).Seconds": true,
	"(time.Duration).String": true, "(*k8s.io/apimachinery/pkg/api/resource.Quantity).String": true,
	"k8s.io/apimachinery/pkg/labels.Everything": true,
}

// purePkgs: standard-library packages whose functions only compute a result from their
// arguments (no contract needed to stay sound: the result is left unconstrained). Keeps a
// harmless edit that starts using, say, strings.ToLower from turning into an alarm.
var purePkgs = map[string]bool{
	"strings": true, "strconv": true, "math": true, "math/bits": true, "unicode": true, "unicode/utf8": true,
	"path": true, "path/filepath": true,
}

// effectFree: calls that neither read nor write modelled state.
func (e *Engine) effectFree(fn *ssa.Function, call *ssa.CallCommon) bool {
	if fn != nil {
		if effectFreeFuncs[fn.String()] {
			return true
		}
		if fn.Pkg != nil && purePkgs[fn.Pkg.Pkg.Path()] && fn.Signature.Recv() == nil && !strings.HasPrefix(fn.Name(), "Append") {
			return true
		}
		p := ""
		if fn.Pkg != nil {
			p = fn.Pkg.Pkg.Path()
		} else if fn.Object() != nil && fn.Object().Pkg() != nil {
			p = fn.Object().Pkg().Path()
		} else if fn.Signature.Recv() != nil {
			if n, ok := deref(fn.Signature.Recv().Type()).(*types.Named); ok && n.Obj().Pkg() != nil {
				p = n.Obj().Pkg().Path()
			}
		}
		for _, ef := range effectFreePkgs {
			if p == ef {
				return true
			}
		}
		return false
	}
	if call != nil && call.IsInvoke() {
		if p := call.Method.Pkg(); p != nil {
			for _, ef := range effectFreePkgs {
				if p.Path() == ef {
					return true
				}
			}
		}
		// error.Error()
		if call.Method.Name() == "Error" && call.Method.Pkg() == nil {
			return true
		}
	}
	return false
}

var errorCtors = map[string]bool{
	"fmt.Errorf": true, "errors.New": true, "github.com/pkg/errors.New": true, "github.com/pkg/errors.Errorf": true,
}

func (f *frame) execCall(instr ssa.Value, call *ssa.CallCommon) {
	v := f.v
	var res Val
	defer func() {
		if instr != nil && res != nil {
			f.env[instr] = res
		}
	}()
	resType := func() types.Type { return call.Signature().Results() }
	freshResult := func(prefix string) Val {
		rt := call.Signature().Results()
		switch rt.Len() {
		case 0:
			return UnitV{}
		case 1:
			return v.freshVal(prefix, rt.At(0).Type(), f.cur)
		}
		return v.freshVal(prefix, rt, f.cur)
	}
	_ = resType
	// ---- builtins
	if b, ok := call.Value.(*ssa.Builtin); ok {
		res = f.builtin(b, call)
		return
	}
	args := make([]Val, len(call.Args))
	for i, a := range call.Args {
		args[i] = f.val(a)
	}
	// ---- interface method
	if call.IsInvoke() {
		recv := f.val(call.Value)
		key := v.eng.ifaceKey(call.Value.Type(), call.Method)
		if fc := v.eng.db.Funcs[key]; fc != nil {
			v.trusted["assumed contract: "+key] = true
			f.safety("nil", Not(Eq(asTerm(recv), ZeroOf(SIface))), call.Pos())
			sig := call.Method.Type().(*types.Signature)
			ptypes := []types.Type{call.Value.Type()}
			for i := 0; i < sig.Params().Len(); i++ {
				ptypes = append(ptypes, sig.Params().At(i).Type())
			}
			res = f.applyContract(fc, append([]Val{recv}, args...), ptypes, sig.Results(), call.Pos())
			return
		}
		if v.eng.effectFree(nil, call) {
			v.trusted["effect-free: "+key] = true
			res = freshResult("ext")
			return
		}
		unsupp("call of interface method %s without a contract", key)
	}
	// ---- static callee
	if fn := call.StaticCallee(); fn != nil {
		if fn.String() == "sort.Sort" && len(call.Args) == 1 {
			if mi, ok := call.Args[0].(*ssa.MakeInterface); ok {
				f.sortArg = mi
			}
		}
		// direct call of a closure made in this function
		if mc, ok := call.Value.(*ssa.MakeClosure); ok {
			cv := f.val(mc).(*ClosureV)
			res = f.callFunction(fn, args, cv.Bindings, call.Pos())
			return
		}
		res = f.callFunction(fn, args, nil, call.Pos())
		return
	}
	// ---- dynamic call of a function value
	if cv, ok := f.val(call.Value).(*ClosureV); ok {
		res = f.callFunction(cv.Fn, args, cv.Bindings, call.Pos())
		return
	}
	// function-typed value: look for an apply contract keyed by the named func type
	if n, ok := call.Value.Type().(*types.Named); ok {
		key := "apply:" + typeKey(n)
		if v.eng.firstParty(n.Obj().Pkg().Path()) {
			key = "apply:" + n.Obj().Pkg().Name() + "." + n.Obj().Name()
		}
		if fc := v.eng.db.Funcs[key]; fc != nil {
			sig := n.Underlying().(*types.Signature)
			ptypes := []types.Type{n}
			for i := 0; i < sig.Params().Len(); i++ {
				ptypes = append(ptypes, sig.Params().At(i).Type())
			}
			res = f.applyContract(fc, append([]Val{f.val(call.Value)}, args...), ptypes, sig.Results(), call.Pos())
			return
		}
	}
	if p, ok := call.Value.(*ssa.Parameter); ok && f.isRoot {
		for i, fp := range f.fn.Params {
			if fp == p && i < len(v.fc.Params) {
				if target, ok := v.fc.FnParams[v.fc.Params[i]]; ok {
					if strings.HasSuffix(target, ".pure") {
						// the function value is required to be effect-free (checked where it is passed):
						// its result is unconstrained, the state is unchanged except for allocation
						v.note("calls through parameter %s are treated as calls of an effect-free function (checked at the call sites that pass it)", v.fc.Params[i])
						now2 := v.ctx.Fresh("now", SInt)
						v.ctx.Assert(T(SBool, "(>= %s %s)", now2.S, f.cur.now.S))
						f.cur = f.cur.withNow(now2)
						res = freshResult("fnval")
						return
					}
					if fn := v.eng.fnByKey[target]; fn != nil {
						v.note("calls through parameter %s are checked against the contract of %s (the only function passed for it)", v.fc.Params[i], target)
						res = f.callFunction(fn, args, nil, call.Pos())
						return
					}
				}
			}
		}
	}
	unsupp("dynamic call of %s at %s", call.Value, v.pos(call.Pos()))
}

func (f *frame) callFunction(fn *ssa.Function, args []Val, bindings []Val, pos token.Pos) Val {
	v := f.v
	key := v.eng.funcKey(fn)
	sig := fn.Signature
	if f.isRoot {
		var ptypes []types.Type
		if sig.Recv() != nil {
			ptypes = append(ptypes, sig.Recv().Type())
		}
		for i := 0; i < sig.Params().Len(); i++ {
			ptypes = append(ptypes, sig.Params().At(i).Type())
		}
		f.siteAsserts(key, pos, args, ptypes)
	}
	// math.Max / math.Ceil over the reals are built in (structured terms, see intForm)
	switch key {
	case "math.Max":
		v.trusted["built-in real model: math.Max"] = true
		return minmax(true, asTerm(args[0]), asTerm(args[1]))
	case "math.Ceil":
		v.trusted["built-in real model: math.Ceil"] = true
		return v.ceilOf(asTerm(args[0]))
	}
	// sort.Sort(data): the assumed contract is per concrete slice type
	if key == "sort.Sort" && f.sortArg != nil {
		mi := f.sortArg
		f.sortArg = nil
		tk := typeKey(mi.X.Type())
		if n, ok := mi.X.Type().(*types.Named); ok && v.eng.firstParty(n.Obj().Pkg().Path()) {
			tk = n.Obj().Pkg().Name() + "." + n.Obj().Name()
		}
		if fc := v.eng.db.Funcs["sort.Sort:"+tk]; fc != nil {
			v.trusted["assumed contract: sort.Sort:"+tk] = true
			return f.applyContract(fc, []Val{f.val(mi.X)}, []types.Type{mi.X.Type()}, sig.Results(), pos)
		}
		unsupp("sort.Sort on %s without a contract sort.Sort:%s", mi.X.Type(), tk)
	}
	if fc := v.eng.db.Funcs[key]; fc != nil && !fc.Inline {
		var ptypes []types.Type
		if recv := sig.Recv(); recv != nil {
			ptypes = append(ptypes, recv.Type())
		}
		for i := 0; i < sig.Params().Len(); i++ {
			ptypes = append(ptypes, sig.Params().At(i).Type())
		}
		if fc.Assume {
			v.trusted["assumed contract: "+key] = true
		} else {
			v.callees[key] = true
		}
		var extra map[string]TV
		if bindings != nil {
			extra = map[string]TV{}
			for i, fv := range fn.FreeVars {
				if i < len(bindings) {
					extra[fv.Name()] = TV{bindings[i], fv.Type()}
					if pt, ok := fv.Type().Underlying().(*types.Pointer); ok {
						if ref, isRef := bindings[i].(Term); isRef {
							extra[fv.Name()+"$ref"] = TV{ref, fv.Type()}
							extra[fv.Name()] = TV{v.loadCell(f.cur, ref, pt.Elem(), false), pt.Elem()}
						}
					}
				}
			}
		}
		return f.applyContractX(fc, args, ptypes, sig.Results(), pos, extra)
	}
	if v.eng.effectFree(fn, nil) {
		v.trusted["effect-free: "+key] = true
		if strings.HasPrefix(fn.String(), "github.com/sirupsen/logrus.Fatal") {
			v.note("log.Fatal* at %s ends the process: modelled as a point of no return", v.pos(pos))
			f.reach = TFalse
		}
		rt := sig.Results()
		var r Val
		switch rt.Len() {
		case 0:
			r = UnitV{}
		case 1:
			r = v.freshVal("ext", rt.At(0).Type(), f.cur)
		default:
			r = v.freshVal("ext", rt, f.cur)
		}
		if errorCtors[fn.String()] {
			t := asTerm(r)
			v.ctx.Assert(T(SBool, "(= (itag %s) %d)", t.S, v.eng.tags.tagName("plain-error")))
		}
		if fn.String() == "github.com/pkg/errors.Wrap" || fn.String() == "github.com/pkg/errors.Wrapf" {
			t := asTerm(r)
			a := asTerm(args[0])
			v.ctx.Assert(T(SBool, "(= (= %s nil_iface) (= %s nil_iface))", t.S, a.S))
			v.ctx.Assert(T(SBool, "(=> (not (= %s nil_iface)) (= (itag %s) %d))", t.S, t.S, v.eng.tags.tagName("plain-error")))
		}
		return r
	}
	// inline first-party bodies without a contract
	inlinable := fn.Blocks != nil && (v.eng.firstParty(pkgPathOf(fn)) || bindings != nil)
	if inlinable && f.depth < 5 {
		if hasLoop(fn) {
			unsupp("call of %s: it has loops and no contract", key)
		}
		v.inlined[key] = true
		return f.inline(fn, args, bindings, pos)
	}
	unsupp("call of %s at %s: no contract, not effect-free, not inlinable", key, v.pos(pos))
	return nil
}

func pkgPathOf(fn *ssa.Function) string {
	for fn.Parent() != nil {
		fn = fn.Parent()
	}
	if fn.Pkg != nil {
		return fn.Pkg.Pkg.Path()
	}
	return ""
}

func hasLoop(fn *ssa.Function) bool {
	for _, b := range fn.Blocks {
		for _, s := range b.Succs {
			if s.Dominates(b) {
				return true
			}
		}
	}
	return false
}

// inline executes the callee body in the caller's state.
func (f *frame) inline(fn *ssa.Function, args []Val, bindings []Val, pos token.Pos) Val {
	v := f.v
	g := &frame{v: v, fn: fn, env: map[ssa.Value]Val{}, depth: f.depth + 1, params: args}
	for i, fv := range fn.FreeVars {
		if i < len(bindings) {
			g.env[fv] = bindings[i]
		}
	}
	g.run(f.cur, f.reach)
	if len(g.exits) == 0 {
		// never returns
		f.reach = TFalse
		rt := fn.Signature.Results()
		switch rt.Len() {
		case 0:
			return UnitV{}
		case 1:
			return v.freshVal("noret", rt.At(0).Type(), f.cur)
		}
		return v.freshVal("noret", rt, f.cur)
	}
	var conds []Term
	var states []*State
	for _, e := range g.exits {
		conds = append(conds, e.reach)
		states = append(states, e.state)
	}
	f.cur = v.mergeStates(conds, states)
	f.reach = v.ctx.Define("reach", Or(conds...))
	n := fn.Signature.Results().Len()
	var results []Val
	for i := 0; i < n; i++ {
		var acc Val
		for j := len(g.exits) - 1; j >= 0; j-- {
			if j == len(g.exits)-1 {
				acc = g.exits[j].results[i]
			} else {
				acc = v.mergeVal(conds[j], g.exits[j].results[i], acc)
			}
		}
		results = append(results, v.nameVal("ret", acc))
	}
	switch n {
	case 0:
		return UnitV{}
	case 1:
		return results[0]
	}
	return TupleV(results)
}

func (f *frame) builtin(b *ssa.Builtin, call *ssa.CallCommon) Val {
	v := f.v
	switch b.Name() {
	case "len":
		switch a := f.val(call.Args[0]).(type) {
		case SliceV:
			return a.L
		case Term:
			if a.Sort == SStr {
				return T(SInt, "(strlen %s)", a.S)
			}
			if _, isMap := call.Args[0].Type().Underlying().(*types.Map); isMap {
				r := v.ctx.Fresh("maplen", SInt)
				v.ctx.Assert(T(SBool, "(>= %s 0)", r.S))
				hasN, _, ks, _, _ := mapArrays(call.Args[0].Type())
				row := Select(v.arr(f.cur, hasN, ArrSort(SRef, ArrSort(ks, SBool))), a)
				// len == 0 iff no key present
				v.ctx.AssertRaw(fmt.Sprintf("(assert (= (= %s 0) (forall ((k %s)) (! (not (select %s k)) :pattern ((select %s k))))))", r.S, ks, row.S, row.S))
				return r
			}
		}
		unsupp("len of %s", call.Args[0].Type())
	case "cap":
		if a, ok := f.val(call.Args[0]).(SliceV); ok {
			return a.C
		}
		unsupp("cap of %s", call.Args[0].Type())
	case "append":
		s := f.val(call.Args[0]).(SliceV)
		add, ok := f.val(call.Args[1]).(SliceV)
		if !ok {
			if t, isT := f.val(call.Args[1]).(Term); isT && t.Sort == SStr {
				unsupp("append of string to []byte")
			}
			unsupp("append of %T", f.val(call.Args[1]))
		}
		// recognise append(s, x) : the variadic slice is a fresh 1-element array
		if single, ok := f.singleton(call.Args[1]); ok {
			return f.appendSlice(s, SliceV{}, single, call.Pos())
		}
		return f.appendSlice(s, add, nil, call.Pos())
	case "delete":
		f.mapDelete(call.Args[0].Type(), asTerm(f.val(call.Args[0])), asTerm(f.val(call.Args[1])))
		return UnitV{}
	case "copy":
		dst, ok1 := f.val(call.Args[0]).(SliceV)
		src, ok2 := f.val(call.Args[1]).(SliceV)
		if !ok1 || !ok2 {
			unsupp("copy of %s", call.Args[1].Type())
		}
		return f.copySlice(dst, src)
	case "print", "println":
		return UnitV{}
	case "min", "max":
		a, c := asTerm(f.val(call.Args[0])), asTerm(f.val(call.Args[1]))
		op := "<="
		if b.Name() == "max" {
			op = ">="
		}
		return Ite(T(SBool, "(%s %s %s)", op, a.S, c.S), a, c)
	}
	unsupp("builtin %s", b.Name())
	return nil
}

// singleton recognises the SSA shape of a one-element variadic argument:
//
//	t1 = new [1]T (varargs); t2 = &t1[0]; *t2 = x; t3 = slice t1[:]
func (f *frame) singleton(arg ssa.Value) (Val, bool) {
	sl, ok := arg.(*ssa.Slice)
	if !ok {
		return nil, false
	}
	al, ok := sl.X.(*ssa.Alloc)
	if !ok || al.Comment != "varargs" {
		return nil, false
	}
	at, ok := deref(al.Type()).Underlying().(*types.Array)
	if !ok || at.Len() != 1 {
		return nil, false
	}
	// find the store into element 0
	for _, ref := range *al.Referrers() {
		if ia, ok := ref.(*ssa.IndexAddr); ok {
			for _, r2 := range *ia.Referrers() {
				if st, ok := r2.(*ssa.Store); ok && st.Addr == ia {
					return f.val(st.Val), true
				}
			}
		}
	}
	return nil, false
}

// ------------------------------------------------------------ contracts

// contractEnv builds the translation environments for a contract instance.
func (v *FnVerifier) contractEnv(fc *FuncContract, args []Val, ptypes []types.Type, pre *State) *TEnv {
	env := &TEnv{v: v, st: pre, vars: map[string]TV{}, bound: map[string]TV{}, pkg: fc.Pkg, nowOld: pre.now}
	for i, name := range fc.Params {
		if i < len(args) && name != "_" {
			var t types.Type
			if i < len(ptypes) {
				t = ptypes[i]
			}
			env.vars[name] = TV{args[i], t}
		}
	}
	return env
}

type callSiteCounter map[string]int

func (f *frame) applyContract(fc *FuncContract, args []Val, ptypes []types.Type, results *types.Tuple, pos token.Pos) Val {
	return f.applyContractX(fc, args, ptypes, results, pos, nil)
}

func (f *frame) applyContractX(fc *FuncContract, args []Val, ptypes []types.Type, results *types.Tuple, pos token.Pos, extra map[string]TV) Val {
	v := f.v
	if len(fc.Params) != len(args) {
		sfail("contract %s names %d parameters, the function has %d", fc.Key, len(fc.Params), len(args))
	}
	for pname, target := range fc.FnParams {
		for i, n := range fc.Params {
			if n == pname && i < len(args) && strings.HasSuffix(target, ".pure") {
				// the closure passed must itself be under a contract without a modifies clause
				ok := false
				why := "not a closure made here"
				var cfn *ssa.Function
				if cv, isC := args[i].(*ClosureV); isC {
					cfn = cv.Fn
				} else if t, isT := args[i].(Term); isT {
					cfn = v.fnTerms[t.S]
				}
				if cfn != nil {
					ck := v.eng.funcKey(cfn)
					if cc := v.eng.db.Funcs[ck]; cc != nil && !cc.Assume && len(cc.Of("modifies")) == 0 {
						ok = true
						v.callees[ck] = true
					} else if cc == nil && v.eng.pureByInspection(cfn, 2) {
						// no contract (e.g. a literal that was turned into a named function): accepted when its
						// body visibly writes nothing but its own locals and calls only effect-free functions
						ok = true
						v.note("%s is passed for a parameter that must be effect-free; it has no contract and was accepted by inspection of its body (its own panic-freedom is not checked)", ck)
					} else {
						why = ck + " has no contract, or one with a modifies clause"
					}
				}
				goal := TFalse
				if ok {
					goal = TTrue
				}
				v.oblige("pre", fmt.Sprintf("%s/fnarg@%s.%s@%d", v.fc.Key, fc.Key, pname, v.siteN[fc.Key]+1), nil, f.reach, goal, v.pos(pos), "the function passed for "+pname+" is effect-free ("+why+")")
				continue
			}
			if n == pname && i < len(args) {
				want := v.ctx.Const("func:"+v.eng.fnByKey[target].String(), SFn)
				got, isT := args[i].(Term)
				ok := isT && got.S == want.S
				goal := TFalse
				if ok {
					goal = TTrue
				}
				v.oblige("pre", fmt.Sprintf("%s/fnarg@%s.%s", v.fc.Key, fc.Key, pname), nil, f.reach, goal, v.pos(pos), "the function passed for "+pname+" is "+target)
			}
		}
	}
	pre := v.contractEnv(fc, args, ptypes, f.cur)
	for k, x := range extra {
		pre.vars[k] = x
	}
	v.siteN[fc.Key]++
	site := v.siteN[fc.Key]
	// ---- requires
	for _, cl := range fc.Of("requires") {
		if !cl.HasTag(v.prop) {
			continue
		}
		goal := v.trClause(pre, cl)
		name := fmt.Sprintf("%s/pre@%s#%d@%d", v.fc.Key, fc.Key, cl.Ord, site)
		v.oblige("pre", name, cl.Tags, f.reach, goal, v.pos(pos), cl.Src)
		f.reach = v.narrow(f.reach, goal)
	}
	// ---- modifies
	post := f.cur
	if !fc.Pure {
		post = v.applyModifies(fc, pre, f.cur)
	}
	// ---- results
	var resVals []Val
	for i := 0; i < results.Len(); i++ {
		name := fmt.Sprintf("r%d", i)
		if i < len(fc.Results) {
			name = fc.Results[i]
		}
		resVals = append(resVals, v.freshVal(shortKey(fc.Key)+"."+name, results.At(i).Type(), post))
	}
	// ---- ensures
	penv := v.contractEnv(fc, args, ptypes, post)
	for k, x := range extra {
		penv.vars[k] = x
	}
	penv.old = pre
	for i, name := range fc.Results {
		if i < len(resVals) && name != "_" {
			penv.vars[name] = TV{resVals[i], results.At(i).Type()}
		}
	}
	for _, cl := range fc.Of("ensures") {
		if !cl.HasTag(v.prop) {
			continue
		}
		t := v.trClause(penv, cl)
		v.ctx.Assert(Implies(f.reach, t))
	}
	f.cur = post
	if fc.NoReturn {
		f.reach = TFalse
	}
	switch len(resVals) {
	case 0:
		return UnitV{}
	case 1:
		return resVals[0]
	}
	return TupleV(resVals)
}

func shortKey(k string) string {
	if i := strings.LastIndex(k, "/"); i >= 0 {
		k = k[i+1:]
	}
	return k
}

func (v *FnVerifier) trClause(env *TEnv, cl *Clause) (t Term) {
	defer func() {
		if r := recover(); r != nil {
			if se, ok := r.(specErr); ok {
				panic(specErr{fmt.Sprintf("%s:%d: %s", strings.TrimPrefix(cl.File, "/repo/"), cl.Line, se.msg)})
			}
			panic(r)
		}
	}()
	return env.bool(cl.E)
}

// modLoc is one location (or region) a contract may modify.
type modLoc struct {
	ghost   string
	arrs    []arrRef // arrays concerned
	ref     Term     // exact object (for arrs with path), or
	region  *SliceV  // all elements of this slice
	mapRow  bool
	allObjs bool // every object (whole arrays)
	mapVals *mapValsLoc
}

type mapValsLoc struct {
	has, val Term
	ks       Sort
}

func (v *FnVerifier) modLocs(fc *FuncContract, env *TEnv) []modLoc {
	var out []modLoc
	for _, cl := range fc.Of("modifies") {
		out = append(out, v.modLocsOf(cl, env)...)
	}
	return out
}

func (v *FnVerifier) modLocsOf(cl *Clause, env *TEnv) []modLoc {
	var out []modLoc
	for _, m := range cl.Mods {
		switch x := m.(type) {
		case EIdent:
			if _, ok := v.eng.db.Ghosts[x.Name]; ok {
				out = append(out, modLoc{ghost: x.Name})
				continue
			}
			sfail("%s:%d: modifies: %s is not a ghost variable", cl.File, cl.Line, x.Name)
		case ESel:
			baseRef, baseT := env.objRef(x.X)
			path, _, ok := fieldByName(baseT, x.F)
			if !ok {
				sfail("%s:%d: modifies: no field %s", cl.File, cl.Line, x.F)
			}
			cur := TV{baseRef, baseT}
			for _, i := range path[:len(path)-1] {
				// embedded struct values become sub-object references, pointers are loaded
				ft := structOf(cur.T).Field(i).Type()
				if kindOf(ft) == KStruct {
					cur = TV{v.subRef(cur.V.(Term), deref(cur.T), i), types.NewPointer(ft)}
				} else {
					cur = env.selField(cur, i)
				}
			}
			ref, ok2 := cur.V.(Term)
			if !ok2 {
				sfail("%s:%d: modifies: %s is not an object field", cl.File, cl.Line, m)
			}
			st := deref(cur.T)
			i := path[len(path)-1]
			ft := structOf(st).Field(i).Type()
			var arrs []arrRef
			n := fieldArray(st, i)
			switch kindOf(ft) {
			case KScalar:
				arrs = []arrRef{{n, ArrSort(SRef, sortOf(ft)), nil}}
			case KSlice:
				arrs = []arrRef{{n + ".b", ArrSort(SRef, SRef), nil}, {n + ".o", ArrSort(SRef, SInt), nil}, {n + ".l", ArrSort(SRef, SInt), nil}, {n + ".c", ArrSort(SRef, SInt), nil}}
			case KStruct:
				arrs = v.structArrays(ft, []int{v.eng.fids.id(st, i)})
			}
			out = append(out, modLoc{arrs: arrs, ref: ref})
		case ECall:
			switch x.F {
			case "elems":
				sl, ok := env.tr(x.Args[0]).V.(SliceV)
				if !ok {
					sfail("modifies elems(...) wants a slice")
				}
				s2 := sl
				out = append(out, modLoc{arrs: v.cellArraysOf(sl.Elem), region: &s2})
			case "spare":
				// the unused capacity of a slice: elements [len, cap) of its backing array
				sl, ok := env.tr(x.Args[0]).V.(SliceV)
				if !ok {
					sfail("modifies spare(...) wants a slice")
				}
				s2 := SliceV{B: sl.B, O: T(SInt, "(+ %s %s)", sl.O.S, sl.L.S), L: IntLit(0), C: T(SInt, "(- %s %s)", sl.C.S, sl.L.S), Elem: sl.Elem}
				out = append(out, modLoc{arrs: v.cellArraysOf(sl.Elem), region: &s2})
			case "fields":
				base := env.tr(x.Args[0])
				ref := base.V.(Term)
				out = append(out, modLoc{arrs: v.structArrays(deref(base.T), nil), ref: ref})
			case "cell":
				base := env.tr(x.Args[0])
				ref := base.V.(Term)
				out = append(out, modLoc{arrs: v.cellArraysOf(deref(base.T)), ref: ref})
			case "mapof":
				base := env.tr(x.Args[0])
				hasN, valN, ks, vs, vt := mapArrays(base.T)
				arrs := []arrRef{{hasN, ArrSort(SRef, ArrSort(ks, SBool)), nil}}
				if vs != "" {
					arrs = append(arrs, arrRef{valN, ArrSort(SRef, ArrSort(ks, vs)), nil})
				} else if kindOf(vt) == KSlice {
					arrs = append(arrs, arrRef{valN + ".b", ArrSort(SRef, ArrSort(ks, SRef)), nil}, arrRef{valN + ".o", ArrSort(SRef, ArrSort(ks, SInt)), nil},
						arrRef{valN + ".l", ArrSort(SRef, ArrSort(ks, SInt)), nil}, arrRef{valN + ".c", ArrSort(SRef, ArrSort(ks, SInt)), nil})
				}
				out = append(out, modLoc{arrs: arrs, ref: base.V.(Term), mapRow: true})
			case "mapvals":
				// mapvals(m): every field of every object that is a value of map m (m: map[K]*Struct)
				base := env.tr(x.Args[0])
				mt, ok := base.T.Underlying().(*types.Map)
				if !ok || structOf(mt.Elem()) == nil {
					sfail("mapvals wants a map to struct pointers")
				}
				hasN, valN, ks, _, _ := mapArrays(base.T)
				hasA := v.arr(env.st, hasN, ArrSort(SRef, ArrSort(ks, SBool)))
				valA := v.arr(env.st, valN, ArrSort(SRef, ArrSort(ks, SRef)))
				out = append(out, modLoc{arrs: v.structArrays(deref(mt.Elem()), nil), mapVals: &mapValsLoc{has: Select(hasA, base.V.(Term)), val: Select(valA, base.V.(Term)), ks: ks}})
			case "allof":
				// allof("pkg.Type"): every field of every object of that type
				name := x.Args[0].(EStr).V
				gt, _ := v.eng.resolveType(env.pkg, name)
				if gt == nil {
					sfail("allof: unknown type %s", name)
				}
				if structOf(gt) != nil {
					out = append(out, modLoc{arrs: v.structArrays(gt, nil), allObjs: true})
				} else if sl, ok := gt.Underlying().(*types.Slice); ok {
					out = append(out, modLoc{arrs: v.cellArraysOf(sl.Elem()), allObjs: true})
				} else {
					out = append(out, modLoc{arrs: v.cellArraysOf(gt), allObjs: true})
				}
			default:
				sfail("%s:%d: modifies: unknown form %s", cl.File, cl.Line, m)
			}
		default:
			sfail("%s:%d: modifies: unsupported location %s", cl.File, cl.Line, m)
		}
	}
	return out
}

// inLoc renders "r is inside location ml of array ar" as SMT over variable r.
func inLoc(ml modLoc, ar arrRef, r string) string {
	switch {
	case ml.allObjs:
		return "true"
	case ml.mapVals != nil:
		base := r
		for i := 0; i < len(ar.path); i++ {
			base = "(parent " + base + ")"
		}
		return fmt.Sprintf("(and (= %s %s) (exists ((k!mv %s)) (and (select %s k!mv) (= (select %s k!mv) %s))))", r, pathRef(base, ar.path), ml.mapVals.ks, ml.mapVals.has.S, ml.mapVals.val.S, base)
	case ml.region != nil:
		base := r
		for i := 0; i < len(ar.path); i++ {
			base = "(parent " + base + ")"
		}
		sl := ml.region
		return fmt.Sprintf("(and (= (birth %s) (birth %s)) (> %s 0) (= (elemBase %s) %s) (<= %s (elemIdx %s)) (< (elemIdx %s) (+ %s %s)) (= %s %s))",
			r, sl.B.S, sl.C.S, base, sl.B.S, sl.O.S, base, base, sl.O.S, sl.C.S, r, pathRef(fmt.Sprintf("(elem %s (elemIdx %s))", sl.B.S, base), ar.path))
	default:
		return fmt.Sprintf("(= %s %s)", r, pathRef(ml.ref.S, ar.path))
	}
}

// applyModifies havocs what fc may modify; everything else (of objects that
// existed before the call) keeps its value. The callee may allocate.
func (v *FnVerifier) applyModifies(fc *FuncContract, pre *TEnv, st *State) *State {
	locs := v.modLocs(fc, pre)
	now2 := v.ctx.Fresh("now", SInt)
	v.ctx.Assert(T(SBool, "(>= %s %s)", now2.S, st.now.S))
	out := st.withNow(now2)
	// group by array
	type grp struct {
		ar   arrRef
		locs []modLoc
	}
	groups := map[string]*grp{}
	var order []string
	for _, ml := range locs {
		if ml.ghost != "" {
			key := "G:" + ml.ghost
			g, _ := v.ghost(st, ml.ghost)
			out = out.with(key, v.ctx.Fresh(key, g.Sort))
			continue
		}
		for _, ar := range ml.arrs {
			g := groups[ar.name]
			if g == nil {
				g = &grp{ar: ar}
				groups[ar.name] = g
				order = append(order, ar.name)
			}
			g.locs = append(g.locs, modLoc{ref: ml.ref, region: ml.region, allObjs: ml.allObjs, mapVals: ml.mapVals, arrs: []arrRef{ar}})
		}
	}
	for _, name := range order {
		g := groups[name]
		a := v.arr(st, name, g.ar.sort)
		a2 := v.ctx.Fresh(name, g.ar.sort)
		v.arrAxioms(a2, g.ar.sort, now2)
		var ins []string
		for _, ml := range g.locs {
			ins = append(ins, inLoc(ml, ml.arrs[0], "r"))
		}
		// old objects outside the modified locations are unchanged
		v.ctx.AssertRaw(fmt.Sprintf("(assert (forall ((r Ref)) (! (=> (and (< (birth r) %s) (not (or %s false))) (= (select %s r) (select %s r))) :pattern ((select %s r)))))",
			st.now.S, strings.Join(ins, " "), a2.S, a.S, a2.S))
		out = out.with(name, a2)
	}
	return out
}

// frameGoals: for every array changed between entry and final, "it differs only
// inside the function's modifies clause (for objects that existed at entry)".
func (v *FnVerifier) frameGoals(entryEnv *TEnv, final *State) map[string]Term {
	locs := v.modLocs(v.fc, entryEnv)
	ghostOK := map[string]bool{}
	byArr := map[string][]modLoc{}
	for _, ml := range locs {
		if ml.ghost != "" {
			ghostOK["G:"+ml.ghost] = true
			continue
		}
		for _, ar := range ml.arrs {
			byArr[ar.name] = append(byArr[ar.name], modLoc{ref: ml.ref, region: ml.region, allObjs: ml.allObjs, mapVals: ml.mapVals, arrs: []arrRef{ar}})
		}
	}
	goals := map[string]Term{}
	for _, k := range final.keys() {
		fin := final.arr[k]
		if strings.HasPrefix(k, "It:") {
			continue
		}
		s := v.arrSort[k]
		if strings.HasPrefix(k, "G:") {
			ent := v.ctx.Const(k+"!0", s)
			if fin.S == ent.S || ghostOK[k] {
				continue
			}
			goals[k] = Eq(fin, ent)
			continue
		}
		ent := v.entryArr(k, s)
		if fin.S == ent.S {
			continue
		}
		idx, _ := s.ArrParts()
		if idx != SRef {
			continue
		}
		var ins []string
		for _, ml := range byArr[k] {
			ins = append(ins, inLoc(ml, ml.arrs[0], "r"))
		}
		goals[k] = T(SBool, "(forall ((r Ref)) (=> (and (< (birth r) %s) (not (or %s false))) (= (select %s r) (select %s r))))",
			v.now0.S, strings.Join(ins, " "), fin.S, ent.S)
	}
	return goals
}

// objRef evaluates e to the object it denotes: a pointer value, or the address of
// an embedded struct field of such an object.
func (te *TEnv) objRef(e Expr) (Term, types.Type) {
	v := te.v
	if sel, ok := e.(ESel); ok {
		if _, isPkg := sel.X.(EIdent); !isPkg || true {
			func() {}()
		}
		// try as a struct-valued field of an object
		if bref, bt, ok := te.tryObjRef(sel.X); ok {
			if path, ft, ok := fieldByName(bt, sel.F); ok && kindOf(ft) == KStruct {
				cur := bref
				ct := bt
				for _, i := range path {
					fty := structOf(ct).Field(i).Type()
					if kindOf(fty) == KStruct {
						cur = v.subRef(cur, deref(ct), i)
						ct = types.NewPointer(fty)
					} else {
						tv := te.selField(TV{cur, ct}, i)
						cur = tv.V.(Term)
						ct = tv.T
					}
				}
				return cur, ct
			}
		}
	}
	tv := te.tr(e)
	t, ok := tv.V.(Term)
	if !ok || t.Sort != SRef || tv.T == nil {
		sfail("%s does not denote an object", e)
	}
	return t, tv.T
}

func (te *TEnv) tryObjRef(e Expr) (ref Term, t types.Type, ok bool) {
	defer func() {
		if r := recover(); r != nil {
			if _, isSpec := r.(specErr); isSpec {
				ok = false
				return
			}
			panic(r)
		}
	}()
	ref, t = te.objRef(e)
	return ref, t, true
}

// siteAsserts discharges `assert @Callee#n` clauses of the root contract at this call site.
func (f *frame) siteAsserts(calleeKey string, pos token.Pos, args []Val, ptypes []types.Type) {
	v := f.v
	short := calleeKey
	if i := strings.LastIndex(short, "."); i >= 0 {
		short = short[i+1:]
	}
	// call sites are numbered in source order
	if f.siteOrd == nil {
		f.siteOrd = map[token.Pos]int{}
		byName := map[string][]token.Pos{}
		for _, b := range f.fn.Blocks {
			for _, in := range b.Instrs {
				if c, ok := in.(ssa.CallInstruction); ok {
					if callee := c.Common().StaticCallee(); callee != nil {
						k := v.eng.funcKey(callee)
						if i := strings.LastIndex(k, "."); i >= 0 {
							k = k[i+1:]
						}
						byName[k] = append(byName[k], c.Pos())
					}
				}
			}
		}
		for _, ps := range byName {
			sort.Slice(ps, func(i, j int) bool { return ps[i] < ps[j] })
			for i, p := range ps {
				f.siteOrd[p] = i + 1
			}
		}
	}
	site := fmt.Sprintf("%s#%d", short, f.siteOrd[pos])
	for _, cl := range v.fc.Of("assert") {
		if cl.Site != site || !cl.HasTag(v.prop) {
			continue
		}
		env := f.siteEnv()
		// #arg0, #arg1, ...: the actual arguments of this call (receiver first)
		for i, a := range args {
			if i < len(ptypes) {
				env.vars[fmt.Sprintf("#arg%d", i)] = TV{a, ptypes[i]}
			}
		}
		goal := v.trClause(env, cl)
		tag := ""
		if len(cl.Tags) > 0 {
			tag = "[" + strings.Join(cl.Tags, ",") + "]"
		}
		v.assertSites[cl.Ord] = true
		v.oblige("post", fmt.Sprintf("%s/assert#%d@%s%s", v.fc.Key, cl.Ord, cl.Site, tag), cl.Tags, f.reach, goal, fmt.Sprintf("%s:%d (at %s)", strings.TrimPrefix(cl.File, "/repo/"), cl.Line, v.pos(pos)), cl.Src)
	}
}

// siteEnv: contract names plus the enclosing function's locals as they are at this point.
func (f *frame) siteEnv() *TEnv {
	v := f.v
	env := &TEnv{v: v, st: f.cur, vars: map[string]TV{}, bound: map[string]TV{}, pkg: v.fc.Pkg, nowOld: v.now0}
	for k, tv := range f.oldVars {
		env.vars[k] = tv
	}
	env.old = &TEnv{v: v, st: v.entry, vars: env.vars, bound: map[string]TV{}, pkg: v.fc.Pkg, nowOld: v.now0}
	cur := f.curBlock
	curIdx := f.curIdx
	env.resolve = func(name string) (TV, bool) {
		if os.Getenv("GOVC_DEBUG") != "" {
			fmt.Fprintf(os.Stderr, "resolve %s at block %d idx %d\n", name, cur.Index, curIdx)
		}
		for d := cur; d != nil; d = d.Idom() {
			refs := f.debug[d]
			for i := len(refs) - 1; i >= 0; i-- {
				r := refs[i]
				if r.name != name {
					continue
				}
				if d == cur && r.idx >= curIdx {
					continue
				}
				val, ok := f.env[r.val]
				if !ok {
					if c, isC := r.val.(*ssa.Const); isC {
						val = f.constVal(c)
					} else {
						continue
					}
				}
				if r.isAddr {
					t := deref(r.val.Type())
					switch a := val.(type) {
					case Term:
						return TV{v.loadCell(f.cur, a, t, env.quiet()), t}, true
					case AddrV:
						return TV{v.loadField(f.cur, a.Obj, a.T, a.Field, env.quiet()), t}, true
					case StackAddrV:
						cur, ok := f.cur.stk[a.A]
						if !ok {
							continue
						}
						for _, i := range a.Path {
							cur = cur.(*StructV).Get(i)
						}
						return TV{cur, t}, true
					}
					continue
				}
				return TV{val, r.val.Type()}, true
			}
		}
		return TV{}, false
	}
	return env
}

// pureByInspection: the function writes only memory it allocated itself and calls only functions that are
// effect-free, under a contract without modifies, or pure by the same inspection (to a small depth).
func (e *Engine) pureByInspection(fn *ssa.Function, depth int) bool {
	if fn == nil || len(fn.Blocks) == 0 {
		return false
	}
	var local func(v ssa.Value) bool
	local = func(v ssa.Value) bool {
		switch x := v.(type) {
		case *ssa.Alloc:
			return true
		case *ssa.FieldAddr:
			return local(x.X)
		case *ssa.IndexAddr:
			return local(x.X)
		}
		return false
	}
	for _, b := range fn.Blocks {
		for _, in := range b.Instrs {
			switch x := in.(type) {
			case *ssa.Store:
				if !local(x.Addr) {
					return false
				}
			case *ssa.MapUpdate, *ssa.Send, *ssa.Go, *ssa.Defer, *ssa.Panic:
				return false
			case ssa.CallInstruction:
				c := x.Common()
				if _, isB := c.Value.(*ssa.Builtin); isB {
					continue
				}
				callee := c.StaticCallee()
				if callee == nil {
					if e.effectFree(nil, c) {
						continue
					}
					return false
				}
				if e.effectFree(callee, nil) {
					continue
				}
				if cc := e.db.Funcs[e.funcKey(callee)]; cc != nil {
					if len(cc.Of("modifies")) == 0 {
						continue
					}
					return false
				}
				if depth > 0 && e.pureByInspection(callee, depth-1) {
					continue
				}
				return false
			}
		}
	}
	return true
}
