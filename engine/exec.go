package main

import (
	"fmt"
	"go/ast"
	"go/constant"
	"go/token"
	"go/types"
	"sort"
	"strings"

	"golang.org/x/tools/go/ssa"
)

// Obligation is one proof goal: assertions[:Mark] ∧ Reach ∧ ¬Goal must be unsat.
type Obligation struct {
	Name      string
	Kind      string // post pre inv-init inv-keep frame safe dec lemma cover
	Func      string
	Tags      []string
	Mark      int
	Reach     Term
	Goal      Term
	Pos       string
	Src       string
	ctx       *Ctx
	ExpectSat bool
	// results
	Status  string // unsat sat unknown timeout error
	Backend string
	Millis  int64
	Model   string
	Output  string
	Second  string // second backend that agreed (thorough)
}

// FnVerifier verifies one function against its contract.
type FnVerifier struct {
	eng    *Engine
	ctx    *Ctx
	prop   string
	root   *ssa.Function
	fc     *FuncContract
	obls   []*Obligation
	safe   map[string][]Term
	safeAt map[string][]string
	now0   Term
	entry  *State
	notes  []string

	trusted  map[string]bool
	callees  map[string]bool
	inlined  map[string]bool
	arrSort  map[string]Sort
	declared map[string]bool
	allocN   int
	covers   []*Obligation

	siteN       map[string]int
	loopsFound  map[int]bool
	loopMods    map[string][]string
	loopSeen    map[string]*loopInfo
	dry         bool
	rootVars    map[string]TV
	pending     []*pendingObl
	ceils       map[string]Term
	rec         map[string]bool // when non-nil, arr()/ghost() record the arrays they are asked for
	opqDeps     map[string][]string
	opqDone     map[string]bool
	opqBusy     map[string]bool
	localRefs   []Term
	fnTerms     map[string]*ssa.Function
	siteSeen    map[string]int
	assertSites map[int]bool
	oblEnv      *TEnv // environment of the clause being turned into an obligation (for known-finding classes)
}

// frame is the execution of one function body (root or inlined).
type frame struct {
	v        *FnVerifier
	fn       *ssa.Function
	env      map[ssa.Value]Val
	depth    int
	isRoot   bool
	params   []Val
	oldVars  map[string]TV // contract names -> entry values (root only)
	reachOut map[*ssa.BasicBlock]Term
	stateOut map[*ssa.BasicBlock]*State
	edgeCond map[[2]int]Term
	cur      *State
	reach    Term
	exits    []exit
	loops    map[*ssa.BasicBlock]*loopInfo
	debug    map[*ssa.BasicBlock][]debugRef
	renamed  map[string]string // current local name -> the name it had on the pinned tree (contracts use that one)
	deferred []*ssa.Defer
	sortArg  *ssa.MakeInterface
	deadMemo map[*ssa.Alloc]bool
	curBlock *ssa.BasicBlock
	curIdx   int
	siteOrd  map[token.Pos]int
	stkMemo  map[*ssa.Alloc]bool
}

type exit struct {
	reach   Term
	state   *State
	results []Val
	pos     token.Pos
}

type debugRef struct {
	name   string
	val    ssa.Value
	isAddr bool
	idx    int
}

type loopInfo struct {
	header    *ssa.BasicBlock
	body      map[*ssa.BasicBlock]bool
	ord       int
	spec      *LoopSpec
	preState  *State
	preReach  Term
	phiVals   map[*ssa.Phi]Val // havocked values
	decAt     Term
	hasDec    bool
	preNow    Term
	modArrs   []string
	locs      []modLoc
	entryPhis map[*ssa.Phi]Val
	edges     int
}

func (v *FnVerifier) note(format string, args ...interface{}) {
	s := fmt.Sprintf(format, args...)
	for _, n := range v.notes {
		if n == s {
			return
		}
	}
	v.notes = append(v.notes, s)
}

func (v *FnVerifier) pos(p token.Pos) string {
	if !p.IsValid() {
		return ""
	}
	ps := v.eng.fset.Position(p)
	return fmt.Sprintf("%s:%d", strings.TrimPrefix(ps.Filename, "/repo/"), ps.Line)
}

// ------------------------------------------------------------ heap arrays

// arr returns the current version of array name in st, declaring the entry
// version (with the unallocated-memory-is-zero axiom) on first mention.
func (v *FnVerifier) arr(st *State, name string, s Sort) Term {
	if old, ok := v.arrSort[name]; ok && old != s {
		panic(fmt.Sprintf("array %s used at sorts %s and %s", name, old, s))
	}
	v.arrSort[name] = s
	if v.rec != nil {
		v.rec[name] = true
	}
	if t, ok := st.arr[name]; ok {
		return t
	}
	return v.entryArr(name, s)
}

func (v *FnVerifier) entryArr(name string, s Sort) Term {
	t := v.ctx.Const(name+"!0", s)
	if !v.declared[name] {
		v.declared[name] = true
		v.arrAxioms(t, s, v.now0)
	}
	return t
}

// arrAxioms: facts every version of an array satisfies. (Objects are zeroed
// explicitly when allocated; nothing is assumed about unallocated memory.)
func (v *FnVerifier) arrAxioms(a Term, s Sort, now Term) {
	if !s.IsArray() {
		return
	}
	idx, val := s.ArrParts()
	if idx != SRef {
		return
	}
	if val == SRef {
		// the heap is closed at every moment: an object that exists holds only references to
		// objects that exist (or nil). Only for existing objects: this version of the array
		// also carries the contents of objects allocated later by callees that do not write it.
		v.ctx.AssertRaw(fmt.Sprintf("(assert (forall ((r Ref)) (! (=> (< (birth r) %s) (< (birth (select %s r)) %s)) :pattern ((select %s r)))))", now.S, a.S, now.S, a.S))
	}
	if val.IsArray() { // map rows: the nil map is empty
		if _, vv := val.ArrParts(); vv == SBool {
			v.ctx.AssertRaw(fmt.Sprintf("(assert (= (select %s null) %s))", a.S, ZeroOf(val).S))
		}
	}
}

// havocArr gives array `name` a fresh version in st.
func (v *FnVerifier) havocArr(st *State, name string, now Term) *State {
	s, ok := v.arrSort[name]
	if !ok {
		return st
	}
	t := v.ctx.Fresh(name, s)
	v.arrAxioms(t, s, now)
	return st.with(name, t)
}

func (v *FnVerifier) ghost(st *State, name string) (Term, bool) {
	g, ok := v.eng.db.Ghosts[name]
	if !ok {
		return Term{}, false
	}
	_, s := v.eng.resolveType(v.fc.Pkg, g.Type)
	key := "G:" + name
	v.arrSort[key] = s
	if v.rec != nil {
		v.rec[key] = true
	}
	if t, ok := st.arr[key]; ok {
		return t, true
	}
	return v.ctx.Const(key+"!0", s), true
}

// ------------------------------------------------------------ load / store

func (v *FnVerifier) typeInv(val Term, st *State, quiet bool) {
	if quiet {
		return
	}
	if val.Sort == SRef {
		// every reference stored anywhere names an object that exists by now; that references
		// read from objects that existed at entry are themselves that old is the (guarded)
		// closedness axiom of entryArr, not assumed here: an unwritten array version also holds
		// the contents of objects a callee allocated
		now := st.now
		v.ctx.Assert(T(SBool, "(< (birth %s) %s)", val.S, now.S))
	}
}

// entryOnly: the term selects from an entry-version array (name!0).
func entryOnly(s string) bool {
	if !strings.HasPrefix(s, "(select ") {
		return false
	}
	rest := s[len("(select "):]
	var arr string
	if strings.HasPrefix(rest, "|") {
		end := strings.Index(rest[1:], "|")
		if end < 0 {
			return false
		}
		arr = rest[:end+2]
	} else {
		end := strings.IndexAny(rest, " )")
		if end < 0 {
			return false
		}
		arr = rest[:end]
	}
	return strings.HasSuffix(strings.Trim(arr, "|"), "!0")
}

// loadCell reads a value of type t stored at ref (pointee or slice element).
func (v *FnVerifier) loadCell(st *State, ref Term, t types.Type, quiet bool) Val {
	switch kindOf(t) {
	case KScalar:
		s := sortOf(t)
		val := Select(v.arr(st, cellArray(t), ArrSort(SRef, s)), ref)
		v.typeInv(val, st, quiet)
		return val
	case KSlice:
		n := cellArray(t)
		return v.mkSlice(st, n, ref, t, quiet)
	case KStruct:
		return v.loadStruct(st, ref, t, quiet)
	case KUnit:
		return UnitV{}
	}
	unsupp("load of %s", t)
	return nil
}

func (v *FnVerifier) mkSlice(st *State, n string, ref Term, t types.Type, quiet bool) SliceV {
	sl := SliceV{
		B:    Select(v.arr(st, n+".b", ArrSort(SRef, SRef)), ref),
		O:    Select(v.arr(st, n+".o", ArrSort(SRef, SInt)), ref),
		L:    Select(v.arr(st, n+".l", ArrSort(SRef, SInt)), ref),
		C:    Select(v.arr(st, n+".c", ArrSort(SRef, SInt)), ref),
		Elem: t.Underlying().(*types.Slice).Elem(),
	}
	if !quiet {
		v.ctx.Assert(v.sliceWF(sl, st))
	}
	return sl
}

func (v *FnVerifier) sliceWF(sl SliceV, st *State) Term {
	return T(SBool, "(and (<= 0 %s) (<= 0 %s) (<= %s %s) (< (birth %s) %s) (=> (= %s null) (= %s 0)))", sl.O.S, sl.L.S, sl.L.S, sl.C.S, sl.B.S, st.now.S, sl.B.S, sl.C.S)
}

func (v *FnVerifier) loadStruct(st *State, ref Term, t types.Type, quiet bool) *StructV {
	return &StructV{T: t, get: func(i int) Val { return v.loadField(st, ref, t, i, quiet) }}
}

func (v *FnVerifier) subRef(ref Term, t types.Type, i int) Term {
	return T(SRef, "(sub %s %d)", ref.S, v.eng.fids.id(t, i))
}

// loadField reads field i of the struct of type t at ref.
func (v *FnVerifier) loadField(st *State, ref Term, t types.Type, i int, quiet bool) Val {
	ft := structOf(t).Field(i).Type()
	switch kindOf(ft) {
	case KScalar:
		s := sortOf(ft)
		val := Select(v.arr(st, fieldArray(t, i), ArrSort(SRef, s)), ref)
		v.typeInv(val, st, quiet)
		return val
	case KSlice:
		return v.mkSlice(st, fieldArray(t, i), ref, ft, quiet)
	case KStruct:
		return v.loadStruct(st, v.subRef(ref, t, i), ft, quiet)
	case KArray:
		return v.subRef(ref, t, i)
	case KUnit:
		return UnitV{}
	}
	unsupp("load of field %s", ft)
	return nil
}

func (v *FnVerifier) storeCell(st *State, ref Term, t types.Type, val Val) *State {
	switch kindOf(t) {
	case KScalar:
		s := sortOf(t)
		n := cellArray(t)
		return st.with(n, v.ctx.Define(n, Store(v.arr(st, n, ArrSort(SRef, s)), ref, v.coerce(asTerm(val), s))))
	case KSlice:
		return v.storeSlice(st, cellArray(t), ref, val)
	case KStruct:
		return v.storeStruct(st, ref, t, val)
	case KUnit:
		return st
	}
	unsupp("store of %s", t)
	return nil
}

func (v *FnVerifier) coerce(t Term, s Sort) Term {
	if t.Sort == s {
		return t
	}
	if t.Sort == SInt && s == SReal {
		return ToReal(t)
	}
	if t.S == "null" {
		return ZeroOf(s)
	}
	panic(fmt.Sprintf("sort mismatch: %s is %s, want %s", t.S, t.Sort, s))
}

func (v *FnVerifier) storeSlice(st *State, n string, ref Term, val Val) *State {
	sl, ok := val.(SliceV)
	if !ok {
		unsupp("store of non-slice %T into slice cell", val)
	}
	for _, p := range []struct {
		suf string
		s   Sort
		t   Term
	}{{".b", SRef, sl.B}, {".o", SInt, sl.O}, {".l", SInt, sl.L}, {".c", SInt, sl.C}} {
		a := v.arr(st, n+p.suf, ArrSort(SRef, p.s))
		st = st.with(n+p.suf, v.ctx.Define(n+p.suf, Store(a, ref, p.t)))
	}
	return st
}

func (v *FnVerifier) storeStruct(st *State, ref Term, t types.Type, val Val) *State {
	sv, ok := val.(*StructV)
	if !ok {
		unsupp("store of non-struct %T", val)
	}
	s := structOf(t)
	if s.NumFields() > 80 {
		unsupp("whole-struct store of %s (%d fields)", t, s.NumFields())
	}
	for i := 0; i < s.NumFields(); i++ {
		st = v.storeField(st, ref, t, i, sv.Get(i))
	}
	return st
}

func (v *FnVerifier) storeField(st *State, ref Term, t types.Type, i int, val Val) *State {
	ft := structOf(t).Field(i).Type()
	switch kindOf(ft) {
	case KScalar:
		s := sortOf(ft)
		n := fieldArray(t, i)
		return st.with(n, v.ctx.Define(n, Store(v.arr(st, n, ArrSort(SRef, s)), ref, v.coerce(asTerm(val), s))))
	case KSlice:
		return v.storeSlice(st, fieldArray(t, i), ref, val)
	case KStruct:
		return v.storeStruct(st, v.subRef(ref, t, i), ft, val)
	case KUnit:
		return st
	}
	unsupp("store of field %s", ft)
	return nil
}

// zeroVal is the zero value of type t.
func (v *FnVerifier) zeroVal(t types.Type) Val {
	switch kindOf(t) {
	case KScalar:
		return ZeroOf(sortOf(t))
	case KSlice:
		return SliceV{B: TNull, O: IntLit(0), L: IntLit(0), C: IntLit(0), Elem: t.Underlying().(*types.Slice).Elem()}
	case KStruct:
		s := structOf(t)
		return &StructV{T: t, get: func(i int) Val { return v.zeroVal(s.Field(i).Type()) }}
	case KUnit:
		return UnitV{}
	}
	unsupp("zero value of %s", t)
	return nil
}

// freshVal is an unconstrained value of type t (named prefix.*).
func (v *FnVerifier) freshVal(prefix string, t types.Type, st *State) Val {
	switch kindOf(t) {
	case KScalar:
		c := v.ctx.Fresh(prefix, sortOf(t))
		if c.Sort == SRef {
			v.ctx.Assert(T(SBool, "(< (birth %s) %s)", c.S, st.now.S))
		}
		return c
	case KSlice:
		sl := SliceV{B: v.ctx.Fresh(prefix+".b", SRef), O: v.ctx.Fresh(prefix+".o", SInt), L: v.ctx.Fresh(prefix+".l", SInt), C: v.ctx.Fresh(prefix+".c", SInt), Elem: t.Underlying().(*types.Slice).Elem()}
		v.ctx.Assert(v.sliceWF(sl, st))
		return sl
	case KStruct:
		s := structOf(t)
		return &StructV{T: t, get: func(i int) Val { return v.freshVal(prefix+"."+s.Field(i).Name(), s.Field(i).Type(), st) }}
	case KUnit:
		return UnitV{}
	case KTuple:
		tp := t.(*types.Tuple)
		out := make(TupleV, tp.Len())
		for i := range out {
			out[i] = v.freshVal(fmt.Sprintf("%s.%d", prefix, i), tp.At(i).Type(), st)
		}
		return out
	}
	unsupp("fresh value of %s", t)
	return nil
}

// mergeVal = ite(c, a, b) lifted to all value shapes.
func (v *FnVerifier) mergeVal(c Term, a, b Val) Val {
	switch x := a.(type) {
	case Term:
		y := asTerm(b)
		if x.Sort != y.Sort {
			if x.S == "null" {
				x = ZeroOf(y.Sort)
			} else if y.S == "null" {
				y = ZeroOf(x.Sort)
			}
		}
		return Ite(c, x, y)
	case SliceV:
		y := b.(SliceV)
		return SliceV{Ite(c, x.B, y.B), Ite(c, x.O, y.O), Ite(c, x.L, y.L), Ite(c, x.C, y.C), x.Elem}
	case *StructV:
		y := b.(*StructV)
		return &StructV{T: x.T, get: func(i int) Val { return v.mergeVal(c, x.Get(i), y.Get(i)) }}
	case UnitV:
		return a
	case TupleV:
		y := b.(TupleV)
		out := make(TupleV, len(x))
		for i := range x {
			out[i] = v.mergeVal(c, x[i], y[i])
		}
		return out
	case *ClosureV:
		return Ite(c, x.Term, asTerm(b))
	case AddrV:
		y, ok := b.(AddrV)
		if ok && y.Field == x.Field && typeKey(y.T) == typeKey(x.T) {
			return AddrV{Obj: Ite(c, x.Obj, y.Obj), T: x.T, Field: x.Field}
		}
	}
	unsupp("merge of %T", a)
	return nil
}

// nameVal gives compound terms inside a value a name (keeps terms small).
func (v *FnVerifier) nameVal(prefix string, a Val) Val {
	switch x := a.(type) {
	case Term:
		return v.ctx.Define(prefix, x)
	case SliceV:
		return SliceV{v.ctx.Define(prefix+".b", x.B), v.ctx.Define(prefix+".o", x.O), v.ctx.Define(prefix+".l", x.L), v.ctx.Define(prefix+".c", x.C), x.Elem}
	}
	return a
}

// ------------------------------------------------------------ allocation

func (v *FnVerifier) alloc(st *State, prefix string) (Term, *State) {
	v.allocN++
	r := v.ctx.Fresh(prefix, SRef)
	v.ctx.Assert(T(SBool, "(and (= (birth %s) %s) (= (kindOf %s) 0) (not (= %s null)))", r.S, st.now.S, r.S, r.S))
	n := v.ctx.Define("now", T(SInt, "(+ %s 1)", st.now.S))
	return r, st.withNow(n)
}

// allocZero allocates an object of type t and zero-initialises it.
func (v *FnVerifier) allocZero(st *State, prefix string, t types.Type) (Term, *State) {
	r, st := v.alloc(st, prefix)
	switch kindOf(t) {
	case KScalar, KSlice, KStruct:
		for _, ar := range v.cellArraysOf(t) {
			a := v.arr(st, ar.name, ar.sort)
			_, vs := ar.sort.ArrParts()
			st = st.with(ar.name, v.ctx.Define(ar.name, Store(a, Term{pathRef(r.S, ar.path), SRef}, ZeroOf(vs))))
		}
	case KArray:
		v.note("array object %s: elements are not zero-initialised in the model (every element is assigned before use in the verified code, or reads are unconstrained)", t)
	}
	return r, st
}

// ------------------------------------------------------------ obligations

func (v *FnVerifier) oblige(kind, name string, tags []string, reach, goal Term, pos, src string) *Obligation {
	if k, ok := v.eng.known[name]; ok && k.Exclude != "" && v.rootVars != nil {
		// known finding: prove the obligation outside the recorded class only
		ex, err := ParseExpr(k.Exclude)
		if err != nil {
			panic(specErr{"known-findings exclude: " + err.Error()})
		}
		env := v.entryEnv()
		if v.oblEnv != nil {
			env = v.oblEnv
		}
		goal = Or(env.bool(ex), goal)
	}
	o := &Obligation{Name: name, Kind: kind, Func: v.fc.Key, Tags: tags, Mark: v.ctx.Mark(), Reach: reach, Goal: goal, Pos: pos, Src: src, ctx: v.ctx}
	v.obls = append(v.obls, o)
	return o
}

type pendingObl struct {
	kind, name string
	tags       []string
	goals      []Term
	pos, src   string
}

// pend accumulates goals of the same named obligation (several back edges of one
// loop); they are conjoined into one obligation when the function is finished.
func (v *FnVerifier) pend(kind, name string, tags []string, reach, goal Term, pos, src string) {
	for _, p := range v.pending {
		if p.name == name {
			p.goals = append(p.goals, Implies(reach, goal))
			return
		}
	}
	v.pending = append(v.pending, &pendingObl{kind: kind, name: name, tags: tags, goals: []Term{Implies(reach, goal)}, pos: pos, src: src})
}

func (v *FnVerifier) flushPending() {
	for _, p := range v.pending {
		v.oblige(p.kind, p.name, p.tags, TTrue, And(p.goals...), p.pos, p.src)
	}
	v.pending = nil
}

// safety records a no-panic condition of the given class and narrows reach.
func (f *frame) safety(class string, cond Term, pos token.Pos) {
	if cond.S == "true" {
		return
	}
	v := f.v
	v.safe[class] = append(v.safe[class], Implies(f.reach, cond))
	v.safeAt[class] = append(v.safeAt[class], v.pos(pos))
	f.reach = v.narrow(f.reach, cond)
}

// narrow: the reachability condition after `cond` is known to hold. Quantified
// conditions are attached one-way (reach' => reach /\ cond) so that no quantifier
// occurs in negative polarity.
func (v *FnVerifier) narrow(reach, cond Term) Term {
	if cond.S == "true" {
		return reach
	}
	if strings.Contains(cond.S, "(forall ") || strings.Contains(cond.S, "(exists ") {
		r2 := v.ctx.Fresh("reach", SBool)
		v.ctx.Assert(Implies(r2, And(reach, cond)))
		return r2
	}
	return v.ctx.Define("reach", And(reach, cond))
}

// ------------------------------------------------------------ CFG helpers

func (f *frame) analyseLoops() {
	fn := f.fn
	f.loops = map[*ssa.BasicBlock]*loopInfo{}
	var headers []*ssa.BasicBlock
	for _, b := range fn.Blocks {
		for _, s := range b.Succs {
			if s.Dominates(b) {
				li := f.loops[s]
				if li == nil {
					li = &loopInfo{header: s, body: map[*ssa.BasicBlock]bool{s: true}}
					f.loops[s] = li
					headers = append(headers, s)
				}
				// natural loop of back edge b->s
				stack := []*ssa.BasicBlock{b}
				for len(stack) > 0 {
					x := stack[len(stack)-1]
					stack = stack[:len(stack)-1]
					if li.body[x] {
						continue
					}
					li.body[x] = true
					stack = append(stack, x.Preds...)
				}
			}
		}
	}
	sort.Slice(headers, func(i, j int) bool { return headers[i].Index < headers[j].Index })
	for i, h := range headers {
		f.loops[h].ord = i
	}
}

func isBackEdge(from, to *ssa.BasicBlock) bool { return to.Dominates(from) }

func (f *frame) rpo() []*ssa.BasicBlock {
	seen := map[*ssa.BasicBlock]bool{}
	var post []*ssa.BasicBlock
	var dfs func(b *ssa.BasicBlock)
	dfs = func(b *ssa.BasicBlock) {
		seen[b] = true
		for _, s := range b.Succs {
			if !seen[s] && !isBackEdge(b, s) {
				dfs(s)
			}
		}
		post = append(post, b)
	}
	dfs(f.fn.Blocks[0])
	for i, j := 0, len(post)-1; i < j; i, j = i+1, j-1 {
		post[i], post[j] = post[j], post[i]
	}
	return post
}

// mergeStates builds the state at a join from (cond, state) pairs.
func (v *FnVerifier) mergeStates(conds []Term, states []*State) *State {
	if len(states) == 1 {
		return states[0]
	}
	names := map[string]bool{}
	for _, s := range states {
		for k := range s.arr {
			names[k] = true
		}
	}
	keys := make([]string, 0, len(names))
	for k := range names {
		keys = append(keys, k)
	}
	sort.Strings(keys)
	out := &State{arr: map[string]Term{}}
	for _, k := range keys {
		sortK := v.arrSort[k]
		var acc Term
		same := true
		var first Term
		for i := len(states) - 1; i >= 0; i-- {
			var t Term
			if x, ok := states[i].arr[k]; ok {
				t = x
			} else if strings.HasPrefix(k, "G:") {
				t = v.ctx.Const(k+"!0", sortK)
			} else if strings.HasPrefix(k, "It:") {
				t = ZeroOf(sortK)
			} else {
				t = v.entryArr(k, sortK)
			}
			if i == len(states)-1 {
				acc = t
				first = t
			} else {
				if t.S != first.S {
					same = false
				}
				acc = Ite(conds[i], t, acc)
			}
		}
		if same {
			out.arr[k] = first
		} else {
			out.arr[k] = v.ctx.Define(k, acc)
		}
	}
	var now Term
	for i := len(states) - 1; i >= 0; i-- {
		if i == len(states)-1 {
			now = states[i].now
		} else {
			now = Ite(conds[i], states[i].now, now)
		}
	}
	out.now = v.ctx.Define("now", now)
	// stack structs: merge by value (only those known on every incoming edge)
	if len(states[0].stk) > 0 {
		out.stk = map[*ssa.Alloc]Val{}
		for a, last := range states[len(states)-1].stk {
			acc := last
			okAll := true
			for i := len(states) - 2; i >= 0; i-- {
				x, ok := states[i].stk[a]
				if !ok {
					okAll = false
					break
				}
				acc = v.mergeVal(conds[i], x, acc)
			}
			if okAll {
				out.stk[a] = acc
			}
		}
	}
	return out
}

// ------------------------------------------------------------ running a body

// run executes fn's body from entry state st with the given arguments and
// returns the merged exit (nil results if the function never returns).
func (f *frame) run(st *State, reach Term) {
	v := f.v
	fn := f.fn
	if len(fn.Blocks) == 0 {
		unsupp("function %s has no body", fn)
	}
	// fn.Recover (the block run after a panic when there are defers) is never entered:
	// panics are separate safety obligations, and only effect-free defers are accepted.
	f.analyseLoops()
	f.collectDebug()
	f.reachOut = map[*ssa.BasicBlock]Term{}
	f.stateOut = map[*ssa.BasicBlock]*State{}
	f.edgeCond = map[[2]int]Term{}
	for i, p := range fn.Params {
		f.env[p] = f.params[i]
	}
	order := f.rpo()
	for _, b := range order {
		f.execBlock(b, st, reach)
	}
	_ = v
}

// localVars lists the named local variables (not parameters) a function declares, in source order.
func localVars(fn *ssa.Function) []LocalVar {
	seen := map[types.Object]bool{}
	var objs []*types.Var
	params := map[types.Object]bool{}
	for _, p := range fn.Params {
		if p.Object() != nil {
			params[p.Object()] = true
		}
	}
	for _, b := range fn.Blocks {
		for _, in := range b.Instrs {
			d, ok := in.(*ssa.DebugRef)
			if !ok || d.Object() == nil {
				continue
			}
			v, isVar := d.Object().(*types.Var)
			if !isVar || v.IsField() || seen[v] || params[v] || v.Pkg() == nil || v.Parent() == nil || v.Parent() == v.Pkg().Scope() {
				continue
			}
			seen[v] = true
			objs = append(objs, v)
		}
	}
	sort.Slice(objs, func(i, j int) bool { return objs[i].Pos() < objs[j].Pos() })
	out := make([]LocalVar, len(objs))
	for i, o := range objs {
		out[i] = LocalVar{Name: o.Name(), Type: types.TypeString(o.Type(), nil)}
	}
	return out
}

// LocalVar is one entry of baseline/locals.json.
type LocalVar struct {
	Name string `json:"name"`
	Type string `json:"type"`
}

// renamedLocals aligns the function's locals with those recorded on the pinned tree (same types, same
// order; longest common subsequence when some were added or removed) and returns current name -> old
// name for locals whose old name no longer exists: renaming a local must not orphan the contracts.
func renamedLocals(old, cur []LocalVar) map[string]string {
	if len(old) == 0 || len(cur) == 0 {
		return nil
	}
	curNames := map[string]bool{}
	for _, c := range cur {
		curNames[c.Name] = true
	}
	n, m := len(old), len(cur)
	score := make([][]int, n+1)
	for i := range score {
		score[i] = make([]int, m+1)
	}
	for i := n - 1; i >= 0; i-- {
		for j := m - 1; j >= 0; j-- {
			best := score[i+1][j]
			if score[i][j+1] > best {
				best = score[i][j+1]
			}
			if old[i].Type == cur[j].Type {
				s := score[i+1][j+1] + 1
				if old[i].Name == cur[j].Name {
					s += 2
				}
				if s > best {
					best = s
				}
			}
			score[i][j] = best
		}
	}
	out := map[string]string{}
	i, j := 0, 0
	for i < n && j < m {
		match := 0
		if old[i].Type == cur[j].Type {
			match = score[i+1][j+1] + 1
			if old[i].Name == cur[j].Name {
				match += 2
			}
		}
		switch {
		case match > 0 && match == score[i][j]:
			if old[i].Name != cur[j].Name && !curNames[old[i].Name] {
				out[cur[j].Name] = old[i].Name
			}
			i++
			j++
		case score[i+1][j] == score[i][j]:
			i++
		default:
			j++
		}
	}
	return out
}

func (f *frame) collectDebug() {
	f.debug = map[*ssa.BasicBlock][]debugRef{}
	if f.isRoot && f.v.eng.baseLocals != nil {
		f.renamed = renamedLocals(f.v.eng.baseLocals[f.v.fc.Key], localVars(f.fn))
		for cur, old := range f.renamed {
			f.v.note("local variable %s of %s is the one the contracts call %s (renamed since the pinned tree)", cur, f.v.fc.Key, old)
		}
	}
	// variables that live in an Alloc: every mention of them means the Alloc's current content
	home := map[types.Object]*ssa.Alloc{}
	for _, b := range f.fn.Blocks {
		for _, in := range b.Instrs {
			if d, ok := in.(*ssa.DebugRef); ok && d.X != nil && d.IsAddr && d.Object() != nil {
				if a, isA := d.X.(*ssa.Alloc); isA {
					home[d.Object()] = a
				}
			}
		}
	}
	for _, b := range f.fn.Blocks {
		for i, in := range b.Instrs {
			if d, ok := in.(*ssa.DebugRef); ok && d.X != nil {
				if fv, isVar := d.Object().(*types.Var); isVar && fv.IsField() {
					continue // a field name in a selector, not a variable
				}
				if name, ok := identOf(d.Expr); ok {
					if old, was := f.renamed[name]; was {
						name = old
					}
					if a, lives := home[d.Object()]; lives && !d.IsAddr {
						f.debug[b] = append(f.debug[b], debugRef{name: name, val: a, isAddr: true, idx: i})
						continue
					}
					f.debug[b] = append(f.debug[b], debugRef{name: name, val: d.X, isAddr: d.IsAddr, idx: i})
				}
			}
		}
	}
}

func (f *frame) edgeReach(p, b *ssa.BasicBlock) Term {
	r := f.reachOut[p]
	if c, ok := f.edgeCond[[2]int{p.Index, b.Index}]; ok {
		return And(r, c)
	}
	return r
}

func (f *frame) execBlock(b *ssa.BasicBlock, st0 *State, reach0 Term) {
	v := f.v
	li := f.loops[b]
	// ---- entry: merge forward predecessors
	var conds []Term
	var states []*State
	var preds []*ssa.BasicBlock
	if b.Index == 0 {
		f.cur, f.reach = st0, reach0
	} else {
		for _, p := range b.Preds {
			if isBackEdge(p, b) {
				continue
			}
			if _, done := f.reachOut[p]; !done {
				continue // unreachable predecessor
			}
			preds = append(preds, p)
			conds = append(conds, f.edgeReach(p, b))
			states = append(states, f.stateOut[p])
		}
		if len(preds) == 0 {
			return // unreachable
		}
		f.reach = v.ctx.Define("reach", Or(conds...))
		f.cur = v.mergeStates(conds, states)
	}
	// ---- phis from forward edges
	phiEntry := map[*ssa.Phi]Val{}
	for _, in := range b.Instrs {
		phi, ok := in.(*ssa.Phi)
		if !ok {
			break
		}
		var acc Val
		first := true
		for i := len(preds) - 1; i >= 0; i-- {
			idx := predIndex(b, preds[i])
			val := f.val(phi.Edges[idx])
			if first {
				acc, first = val, false
			} else {
				acc = v.mergeVal(conds[i], val, acc)
			}
		}
		phiEntry[phi] = v.nameVal(phiName(phi), acc)
	}
	if li == nil {
		for p, val := range phiEntry {
			f.env[p] = val
		}
	} else {
		f.enterLoop(b, li, phiEntry)
	}
	// ---- instructions
	for idx, in := range b.Instrs {
		if _, ok := in.(*ssa.Phi); ok {
			continue
		}
		f.curBlock, f.curIdx = b, idx
		f.execInstr(in)
	}
	f.reachOut[b] = f.reach
	f.stateOut[b] = f.cur
	// ---- back edges out of this block
	for _, s := range b.Succs {
		if isBackEdge(b, s) {
			f.backEdge(b, s)
		}
	}
}

func predIndex(b, p *ssa.BasicBlock) int {
	for i, x := range b.Preds {
		if x == p {
			return i
		}
	}
	panic("pred not found")
}

func phiName(p *ssa.Phi) string {
	if p.Comment != "" {
		return p.Comment
	}
	return p.Name()
}

func identOf(e ast.Expr) (string, bool) {
	if id, ok := e.(*ast.Ident); ok {
		return id.Name, true
	}
	return "", false
}

// ------------------------------------------------------------ values

func (f *frame) val(x ssa.Value) Val {
	v := f.v
	switch c := x.(type) {
	case *ssa.Const:
		return f.constVal(c)
	case *ssa.Global:
		// address of a package-level variable: a fixed old object
		g := v.ctx.Const("global:"+c.String(), SRef)
		v.ctx.Assert(T(SBool, "(and (< (birth %s) %s) (not (= %s null)))", g.S, v.now0.S, g.S))
		return g
	case *ssa.Function:
		t := v.ctx.Const("func:"+c.String(), SFn)
		if v.fnTerms == nil {
			v.fnTerms = map[string]*ssa.Function{}
		}
		v.fnTerms[t.S] = c
		return t
	case *ssa.Builtin:
		unsupp("builtin %s used as value", c.Name())
	case *ssa.FreeVar:
		if val, ok := f.env[x]; ok {
			return val
		}
		unsupp("free variable %s outside an inlined closure", c.Name())
	}
	if val, ok := f.env[x]; ok {
		return val
	}
	unsupp("value %s (%T) used before definition in %s", x.Name(), x, f.fn)
	return nil
}

func (f *frame) constVal(c *ssa.Const) Val {
	v := f.v
	t := c.Type()
	if c.Value == nil {
		return v.zeroVal(t)
	}
	switch kindOf(t) {
	case KScalar:
		s := sortOf(t)
		switch s {
		case SBool:
			return BoolLit(constant.BoolVal(c.Value))
		case SInt:
			if c.Value.Kind() == constant.Int {
				if i, ok := constant.Int64Val(c.Value); ok {
					return IntLit(i)
				}
				return Term{bigLit(c.Value.ExactString()), SInt}
			}
			if f, ok := constant.Int64Val(constant.ToInt(c.Value)); ok {
				return IntLit(f)
			}
		case SReal:
			return realLit(c.Value)
		case SStr:
			return v.ctx.StrLit(constant.StringVal(c.Value))
		}
	}
	unsupp("constant %s of type %s", c, t)
	return nil
}

func bigLit(s string) string {
	if strings.HasPrefix(s, "-") {
		return "(- " + s[1:] + ")"
	}
	return s
}

func realLit(c constant.Value) Term {
	if c.Kind() == constant.Int {
		s := c.ExactString()
		if strings.HasPrefix(s, "-") {
			return Term{"(- " + s[1:] + ".0)", SReal}
		}
		return Term{s + ".0", SReal}
	}
	// exact rational
	num := constant.Num(c)
	den := constant.Denom(c)
	ns, ds := num.ExactString(), den.ExactString()
	neg := strings.HasPrefix(ns, "-")
	if neg {
		ns = ns[1:]
	}
	t := "(/ " + ns + ".0 " + ds + ".0)"
	if neg {
		t = "(- " + t + ")"
	}
	return Term{t, SReal}
}
