package main

import (
	"fmt"
	"go/types"
	"strings"
)

// Kind classifies how a Go type is represented in the verifier.
type Kind int

const (
	KScalar Kind = iota // one SMT term
	KSlice              // (base, off, len, cap)
	KStruct             // lazily-read record
	KArray              // Go array (only behind a pointer)
	KUnit               // zero-width (mutexes, empty structs used as markers)
	KTuple
)

// opaque named types modelled as scalars.
var opaqueTypes = map[string]Sort{
	"time.Time":     SInt, // unbounded ns since Unix epoch
	"time.Duration": SInt,
	"k8s.io/apimachinery/pkg/api/resource.Quantity": SQty,
	"github.com/stephanos/clock.Time":               SInt,
}

var unitTypes = map[string]bool{
	"sync.RWMutex": true,
	"sync.Mutex":   true,
	"sync.Once":    true,
	"github.com/aws/aws-sdk-go/private/protocol.noSmithyDocumentSerde": true,
	"github.com/aws/smithy-go/document.NoSerde":                        true,
}

func typeKey(t types.Type) string {
	return types.TypeString(t, func(p *types.Package) string { return p.Path() })
}

func kindOf(t types.Type) Kind {
	key := typeKey(t)
	if _, ok := opaqueTypes[key]; ok {
		return KScalar
	}
	if unitTypes[key] {
		return KUnit
	}
	switch u := t.Underlying().(type) {
	case *types.Basic, *types.Pointer, *types.Map, *types.Chan, *types.Signature, *types.Interface:
		return KScalar
	case *types.Slice:
		return KSlice
	case *types.Struct:
		if u.NumFields() == 0 {
			return KUnit
		}
		return KStruct
	case *types.Array:
		return KArray
	case *types.Tuple:
		return KTuple
	}
	panic(fmt.Sprintf("kindOf: unhandled type %s (%T)", t, t.Underlying()))
}

func sortOf(t types.Type) Sort {
	key := typeKey(t)
	if s, ok := opaqueTypes[key]; ok {
		return s
	}
	switch u := t.Underlying().(type) {
	case *types.Basic:
		info := u.Info()
		switch {
		case info&types.IsBoolean != 0:
			return SBool
		case info&types.IsInteger != 0:
			return SInt
		case info&types.IsFloat != 0:
			return SReal
		case info&types.IsString != 0:
			return SStr
		case u.Kind() == types.UnsafePointer:
			return SRef
		case u.Kind() == types.UntypedNil:
			return SRef
		}
	case *types.Pointer, *types.Map, *types.Chan:
		return SRef
	case *types.Signature:
		return SFn
	case *types.Interface:
		return SIface
	}
	panic(fmt.Sprintf("sortOf: not a scalar type %s", t))
}

// structOf returns the struct underlying t (or pointed to by t).
func structOf(t types.Type) *types.Struct {
	if p, ok := t.Underlying().(*types.Pointer); ok {
		t = p.Elem()
	}
	s, _ := t.Underlying().(*types.Struct)
	return s
}

func deref(t types.Type) types.Type {
	if p, ok := t.Underlying().(*types.Pointer); ok {
		return p.Elem()
	}
	return t
}

// shortType abbreviates a type key for array names.
func shortType(t types.Type) string {
	k := typeKey(t)
	k = strings.ReplaceAll(k, "github.com/atlassian/escalator/pkg/", "")
	k = strings.ReplaceAll(k, "k8s.io/apimachinery/pkg/apis/meta/v1", "metav1")
	k = strings.ReplaceAll(k, "k8s.io/apimachinery/pkg/api/", "")
	k = strings.ReplaceAll(k, "k8s.io/api/core/v1", "v1")
	k = strings.ReplaceAll(k, "github.com/aws/aws-sdk-go/service/", "")
	k = strings.ReplaceAll(k, " ", "")
	return k
}

// fieldArray names the heap array of field i of struct type t (named).
func fieldArray(t types.Type, i int) string {
	st := structOf(t)
	return "H:" + shortType(deref(t)) + "." + st.Field(i).Name()
}

// cellArray names the heap array for pointees / slice elements of type t.
func cellArray(t types.Type) string {
	return "Cell:" + shortType(t)
}

// fieldID is the integer identifying (struct type, field) for sub().
type fieldIDs struct {
	ids   map[string]int
	names []string
}

func (f *fieldIDs) id(t types.Type, i int) int {
	if f.ids == nil {
		f.ids = map[string]int{}
	}
	k := fieldArray(t, i)
	if id, ok := f.ids[k]; ok {
		return id
	}
	id := len(f.names) + 1
	f.ids[k] = id
	f.names = append(f.names, k)
	return id
}

// typeTags gives every concrete type stored in an interface a positive tag.
type typeTags struct {
	ids map[string]int
}

func (tt *typeTags) tag(t types.Type) int {
	if tt.ids == nil {
		tt.ids = map[string]int{}
	}
	k := typeKey(t)
	if id, ok := tt.ids[k]; ok {
		return id
	}
	id := len(tt.ids) + 1
	tt.ids[k] = id
	return id
}
