package main

import (
	"flag"
	"fmt"
	"os"
	"path/filepath"
	"strings"
)

func main() {
	if len(os.Args) < 2 {
		fmt.Fprintln(os.Stderr, "usage: govc <verify|check|list|selftest> ...")
		os.Exit(2)
	}
	for _, t := range strings.Split(os.Getenv("GOVC_ALSO"), ",") {
		if t != "" {
			alsoTags[t] = true
		}
	}
	switch os.Args[1] {
	case "verify":
		cmdVerify(os.Args[2:])
	case "check":
		cmdCheck(os.Args[2:])
	case "ssa":
		e, err := Load("/repo", nil)
		if err != nil {
			fmt.Fprintln(os.Stderr, err)
			os.Exit(2)
		}
		for _, k := range os.Args[2:] {
			if fn := e.fnByKey[k]; fn != nil {
				fn.WriteTo(os.Stdout)
			} else {
				fmt.Println("no function", k)
			}
		}
	case "list":
		cmdList(os.Args[2:])
	case "ledger":
		cmdLedger(os.Args[2:])
	case "selftest":
		cmdSelftest(os.Args[2:])
	case "replay":
		cmdReplay(os.Args[2:])
	default:
		fmt.Fprintln(os.Stderr, "unknown command", os.Args[1])
		os.Exit(2)
	}
}

func cmdList(args []string) {
	fs := flag.NewFlagSet("list", flag.ExitOnError)
	repo := fs.String("repo", "/repo", "repository root")
	fs.Parse(args)
	e, err := Load(*repo, nil)
	if err != nil {
		fmt.Fprintln(os.Stderr, err)
		os.Exit(2)
	}
	for k, fc := range e.db.Funcs {
		kind := "func"
		if fc.Assume {
			kind = "assume"
		}
		_, ok := e.fnByKey[k]
		fmt.Printf("%-7s %-70s resolves=%v clauses=%d\n", kind, k, ok, len(fc.Clauses))
	}
}

func cmdVerify(args []string) {
	fs := flag.NewFlagSet("verify", flag.ExitOnError)
	repo := fs.String("repo", "/repo", "repository root")
	fn := fs.String("func", "", "function key(s), comma separated")
	prop := fs.String("prop", "", "property filter")
	dump := fs.String("dump", "", "directory to dump .smt2 queries into")
	timeout := fs.Int("timeout", 10, "solver timeout (s)")
	fs.Parse(args)
	e, err := Load(*repo, nil)
	if err != nil {
		fmt.Fprintln(os.Stderr, err)
		os.Exit(2)
	}
	e.loadBaseLocals(verifRoot)
	bad := 0
	for _, key := range strings.Split(*fn, ",") {
		res := e.VerifyFunc(key, *prop)
		if res.Err != "" {
			fmt.Printf("%s: %s: %s\n", key, res.ErrKind, res.Err)
			bad++
			continue
		}
		all := append(append([]*Obligation{}, res.Obls...), res.Covers...)
		Discharge(all, *timeout, 8, false)
		for _, o := range all {
			ok := o.Status == "unsat"
			if o.ExpectSat {
				ok = o.Status != "unsat"
			}
			mark := "ok  "
			if !ok {
				mark = "FAIL"
				bad++
			}
			fmt.Printf("%s %-8s %-70s %-8s %-12s %5dms  %s\n", mark, o.Kind, o.Name, o.Status, o.Backend, o.Millis, o.Pos)
			if *dump != "" {
				os.MkdirAll(*dump, 0o755)
				extra := []string{}
				if o.Reach.S != "true" {
					extra = append(extra, "(assert "+o.Reach.S+")")
				}
				if !o.ExpectSat {
					extra = append(extra, "(assert (not "+o.Goal.S+"))")
				}
				name := strings.NewReplacer("/", "_", "*", "", "(", "", ")", "", "#", "_", "[", "_", "]", "", ",", "_", "@", "_").Replace(o.Name)
				os.WriteFile(filepath.Join(*dump, name+".smt2"), []byte(o.ctx.Query(o.Mark, extra, true)), 0o644)
			}
			if !ok && o.Status == "sat" {
				fmt.Println(modelSummary(o.Model, 40))
			}
			if !ok && o.Output != "" {
				fmt.Println("   " + strings.ReplaceAll(o.Output, "\n", "\n   "))
			}
		}
		for _, n := range res.Notes {
			fmt.Println("  note:", n)
		}
		fmt.Println("  trusted:", res.Trusted)
		fmt.Println("  callees:", res.Callees, "inlined:", res.Inlined)
	}
	if bad > 0 {
		os.Exit(1)
	}
}

func modelSummary(m string, max int) string {
	var out []string
	lines := strings.Split(m, "\n")
	for i := 0; i < len(lines) && len(out) < max; i++ {
		l := strings.TrimSpace(lines[i])
		if strings.HasPrefix(l, "(define-fun") && strings.Contains(l, " () ") {
			val := ""
			if i+1 < len(lines) {
				val = strings.TrimSpace(lines[i+1])
			}
			if strings.HasSuffix(l, ")") && !strings.HasSuffix(l, "()") {
				out = append(out, "     "+l)
			} else {
				out = append(out, "     "+l+" "+val)
			}
		}
	}
	return strings.Join(out, "\n")
}
