package main

import (
	"fmt"
	"go/token"
	"go/types"
	"sort"
	"strings"

	"golang.org/x/tools/go/ssa"
)

func (f *frame) loopKey(li *loopInfo) string {
	return fmt.Sprintf("%s#%d", f.fn.String(), li.ord)
}

// rangeIndexPhi finds the hidden index of a `for range` loop over a slice.
func rangeIndexPhi(h *ssa.BasicBlock) (*ssa.Phi, ssa.Value) {
	for _, in := range h.Instrs {
		if p, ok := in.(*ssa.Phi); ok && p.Comment == "rangeindex" {
			// find  t = p + 1 ; c = t < len
			for _, in2 := range h.Instrs {
				if b, ok := in2.(*ssa.BinOp); ok && b.Op == token.LSS {
					if add, ok := b.X.(*ssa.BinOp); ok && add.Op == token.ADD && add.X == p {
						return p, b.Y
					}
				}
			}
			return p, nil
		}
	}
	return nil, nil
}

// countedPhi finds the counter of a loop of the form `for i := 0; cond; i++` (starts at the constant
// 0 on every entry edge, and every back edge carries counter + 1).
func countedPhi(h *ssa.BasicBlock) *ssa.Phi {
	for _, in := range h.Instrs {
		p, ok := in.(*ssa.Phi)
		if !ok {
			break
		}
		if b, isBasic := p.Type().Underlying().(*types.Basic); !isBasic || b.Info()&types.IsInteger == 0 {
			continue
		}
		good, back := true, 0
		for i, pred := range h.Preds {
			e := p.Edges[i]
			if isBackEdge(pred, h) {
				back++
				add, isAdd := e.(*ssa.BinOp)
				one := false
				if isAdd && add.Op == token.ADD && add.X == p {
					if c, isC := add.Y.(*ssa.Const); isC && c.Value != nil && c.Int64() == 1 {
						one = true
					}
				}
				if !one {
					good = false
				}
			} else {
				c, isC := e.(*ssa.Const)
				if !isC || c.Value == nil || c.Int64() != 0 {
					good = false
				}
			}
		}
		if good && back > 0 {
			return p
		}
	}
	return nil
}

// countedBound: the header ends in `if counter < bound` with bound computed from values defined outside
// the loop (a plain value, or len of a slice defined outside).
func (f *frame) countedBound(h *ssa.BasicBlock, cp *ssa.Phi, li *loopInfo) (Term, bool) {
	if len(h.Instrs) == 0 {
		return Term{}, false
	}
	br, ok := h.Instrs[len(h.Instrs)-1].(*ssa.If)
	if !ok {
		return Term{}, false
	}
	cmp, ok := br.Cond.(*ssa.BinOp)
	if !ok || cmp.Op != token.LSS || cmp.X != cp {
		return Term{}, false
	}
	// the true branch must stay in the loop
	if len(h.Succs) != 2 || !li.body[h.Succs[0]] {
		return Term{}, false
	}
	outside := func(v ssa.Value) bool {
		switch x := v.(type) {
		case *ssa.Const, *ssa.Parameter, *ssa.FreeVar:
			return true
		case ssa.Instruction:
			return x.Block() != nil && !li.body[x.Block()] && x.Block() != h
		}
		return false
	}
	if outside(cmp.Y) {
		if _, known := f.env[cmp.Y]; known || isConst(cmp.Y) {
			if t, isT := f.val(cmp.Y).(Term); isT {
				return t, true
			}
		}
		return Term{}, false
	}
	if call, isCall := cmp.Y.(*ssa.Call); isCall {
		if b, isB := call.Call.Value.(*ssa.Builtin); isB && b.Name() == "len" && len(call.Call.Args) == 1 && outside(call.Call.Args[0]) {
			if sl, isS := f.val(call.Call.Args[0]).(SliceV); isS {
				return sl.L, true
			}
		}
	}
	return Term{}, false
}

func isConst(v ssa.Value) bool { _, ok := v.(*ssa.Const); return ok }

// rangeIter finds the map iterator advanced in this loop header.
func rangeIter(h *ssa.BasicBlock) *ssa.Range {
	for _, in := range h.Instrs {
		if n, ok := in.(*ssa.Next); ok {
			if r, ok := n.Iter.(*ssa.Range); ok {
				return r
			}
		}
	}
	return nil
}

// loopEnv: environment for translating this loop's invariants.
func (f *frame) loopEnv(li *loopInfo, phiVals map[*ssa.Phi]Val, st *State) *TEnv {
	v := f.v
	env := &TEnv{v: v, st: st, vars: map[string]TV{}, bound: map[string]TV{}, pkg: v.fc.Pkg, nowOld: v.now0}
	for k, tv := range f.oldVars {
		env.vars[k] = tv
	}
	env.old = &TEnv{v: v, st: v.entry, vars: env.vars, bound: map[string]TV{}, pkg: v.fc.Pkg, nowOld: v.now0}
	h := li.header
	if p, _ := rangeIndexPhi(h); p != nil {
		if pv, ok := phiVals[p]; ok {
			env.vars["#i"] = TV{T(SInt, "(+ %s 1)", asTerm(pv).S), nil}
		}
	} else if p := countedPhi(h); p != nil {
		// `for i := 0; ...; i++`: the counter is the number of completed iterations, as #i of a range loop
		if pv, ok := phiVals[p]; ok {
			env.vars["#i"] = TV{asTerm(pv), nil}
		}
	}
	if rg := rangeIter(h); rg != nil {
		if seen, ok := st.arr[iterKey(rg)]; ok {
			env.vars["#seen"] = TV{seen, nil}
		}
		env.vars["#map"] = TV{f.val(rg.X), rg.X.Type()}
	}
	for _, in := range h.Instrs {
		p, ok := in.(*ssa.Phi)
		if !ok {
			break
		}
		if p.Comment != "" && p.Comment != "rangeindex" {
			if pv, ok := phiVals[p]; ok {
				pname := p.Comment
				if old, was := f.renamed[pname]; was {
					pname = old
				}
				if _, shadow := env.vars[pname]; !shadow || true {
					env.vars[pname] = TV{pv, p.Type()}
				}
			}
		}
	}
	if li.entryPhis != nil && li.preState != nil {
		if phiVals == nil || !samePhiMap(phiVals, li.entryPhis) || st != li.preState {
			env.loopEntry = f.loopEnv(li, li.entryPhis, li.preState)
		}
	}
	env.resolve = func(name string) (TV, bool) {
		// nearest dominating DebugRef
		for d := h; d != nil; d = d.Idom() {
			refs := f.debug[d]
			for i := len(refs) - 1; i >= 0; i-- {
				r := refs[i]
				if r.name != name {
					continue
				}
				if d == h {
					// only defs before the loop matter; header refs are uses of phis (handled above)
					continue
				}
				if _, isPhiInLoop := r.val.(*ssa.Phi); isPhiInLoop && li.body[r.val.(*ssa.Phi).Block()] {
					continue
				}
				val, ok := f.env[r.val]
				if !ok {
					if c, isC := r.val.(*ssa.Const); isC {
						val = f.constVal(c)
					} else {
						continue
					}
				}
				if r.isAddr {
					t := deref(r.val.Type())
					switch a := val.(type) {
					case Term:
						return TV{v.loadCell(st, a, t, env.quiet()), t}, true
					case AddrV:
						return TV{v.loadField(st, a.Obj, a.T, a.Field, env.quiet()), t}, true
					case StackAddrV:
						cur, ok := st.stk[a.A]
						if !ok {
							continue
						}
						for _, i := range a.Path {
							cur = cur.(*StructV).Get(i)
						}
						return TV{cur, t}, true
					}
					continue
				}
				return TV{val, r.val.Type()}, true
			}
		}
		return TV{}, false
	}
	return env
}

func samePhiMap(a, b map[*ssa.Phi]Val) bool {
	if len(a) != len(b) {
		return false
	}
	for k, x := range a {
		y, ok := b[k]
		if !ok {
			return false
		}
		xt, ok1 := x.(Term)
		yt, ok2 := y.(Term)
		if ok1 != ok2 || (ok1 && xt.S != yt.S) {
			return false
		}
		if !ok1 {
			xs, ok3 := x.(SliceV)
			ys, ok4 := y.(SliceV)
			if ok3 != ok4 || (ok3 && (xs.B.S != ys.B.S || xs.L.S != ys.L.S)) {
				return false
			}
		}
	}
	return true
}

func (f *frame) enterLoop(b *ssa.BasicBlock, li *loopInfo, phiEntry map[*ssa.Phi]Val) {
	v := f.v
	li.entryPhis = phiEntry
	if !f.isRoot {
		unsupp("loop inside inlined function %s", f.fn)
	}
	li.preState, li.preReach, li.preNow = f.cur, f.reach, f.cur.now
	li.spec = v.fc.Loops[li.ord]
	key := f.loopKey(li)
	if v.dry {
		for p, val := range phiEntry {
			f.env[p] = val
		}
		v.loopSeen[key] = li
		return
	}
	v.loopsFound[li.ord] = true
	// ---- invariants hold on entry
	if li.spec != nil {
		env := f.loopEnv(li, phiEntry, f.cur)
		for _, cl := range li.spec.Clauses {
			if cl.Kind != "invariant" || !cl.HasTag(v.prop) {
				continue
			}
			goal := v.trClause(env, cl)
			v.oblige("inv-init", fmt.Sprintf("%s/inv-init#%d.%d", v.fc.Key, li.ord, cl.Ord), cl.Tags, f.reach, goal, v.pos(firstPos(b)), cl.Src)
		}
	}
	// ---- the heap is closed at loop entry: what an object that exists now refers to exists now.
	// (References loaded inside the body are only known to exist at load time; the loop frame
	// speaks about objects older than the loop.)
	var refArrs []string
	for name, s := range v.arrSort {
		if s == ArrSort(SRef, SRef) && !strings.HasPrefix(name, "G:") {
			refArrs = append(refArrs, name)
		}
	}
	sort.Strings(refArrs)
	for _, name := range refArrs {
		a := v.arr(f.cur, name, v.arrSort[name])
		v.ctx.AssertRaw(fmt.Sprintf("(assert (forall ((r Ref)) (! (=> (< (birth r) %s) (< (birth (select %s r)) %s)) :pattern ((select %s r)))))", f.cur.now.S, a.S, f.cur.now.S, a.S))
	}
	// ---- havoc everything the loop may change
	mods := v.loopMods[key]
	li.modArrs = mods
	now2 := v.ctx.Fresh("now", SInt)
	v.ctx.Assert(T(SBool, "(>= %s %s)", now2.S, f.cur.now.S))
	st := f.cur.withNow(now2)
	// what the loop may write in objects that exist before it (explicit `modifies` of the loop spec)
	li.locs = nil
	if li.spec != nil {
		lenv := f.loopEnv(li, phiEntry, f.cur)
		for _, cl := range li.spec.Clauses {
			if cl.Kind == "modifies" {
				li.locs = append(li.locs, v.modLocsOf(cl, lenv)...)
			}
		}
	}
	for _, name := range mods {
		s, ok := v.arrSort[name]
		if !ok {
			continue
		}
		if strings.HasPrefix(name, "G:") || strings.HasPrefix(name, "It:") {
			st = st.with(name, v.ctx.Fresh(name, s))
			continue
		}
		a2 := v.ctx.Fresh(name, s)
		v.arrAxioms(a2, s, now2)
		st = st.with(name, a2)
		// auto-invariant: objects that existed before the loop and are outside the loop's
		// modifies clause keep their value (assumed here, re-proved at the back edge)
		if fr := v.loopFrame(name, s, li, a2); fr.S != "true" {
			v.ctx.Assert(fr)
		}
	}
	f.cur = st
	li.phiVals = map[*ssa.Phi]Val{}
	for p := range phiEntry {
		val := v.freshVal("loop."+phiName(p), p.Type(), f.cur)
		li.phiVals[p] = val
		f.env[p] = val
	}
	if p, ln := rangeIndexPhi(b); p != nil && ln != nil {
		pv := asTerm(li.phiVals[p])
		lv := asTerm(f.val(ln))
		v.ctx.Assert(T(SBool, "(and (<= (- 1) %s) (< %s %s))", pv.S, pv.S, Ite(T(SBool, "(> %s 0)", lv.S), lv, IntLit(0)).S))
	}
	if p, _ := rangeIndexPhi(b); p == nil {
		if cp := countedPhi(b); cp != nil {
			// a counter that starts at 0 and only ever grows by one is never negative (integers are mathematical)
			cv := asTerm(li.phiVals[cp])
			v.ctx.Assert(T(SBool, "(>= %s 0)", cv.S))
			// ... and, when the loop runs while counter < bound for a bound that does not change in the
			// loop, never exceeds max(bound, 0) - what a range loop gives for free
			if bound, ok := f.countedBound(b, cp, li); ok {
				v.ctx.Assert(T(SBool, "(<= %s (ite (> %s 0) %s 0))", cv.S, bound.S, bound.S))
			}
		}
	}
	// ---- assume the invariants for an arbitrary iteration
	if li.spec != nil {
		env := f.loopEnv(li, li.phiVals, f.cur)
		for _, cl := range li.spec.Clauses {
			switch cl.Kind {
			case "invariant":
				if !cl.HasTag(v.prop) {
					continue
				}
				v.ctx.Assert(Implies(f.reach, v.trClause(env, cl)))
			case "decreases":
				li.decAt = v.ctx.Define("variant", env.term(cl.E))
				li.hasDec = true
			}
		}
	}
}

func firstPos(b *ssa.BasicBlock) token.Pos {
	for _, in := range b.Instrs {
		if in.Pos().IsValid() {
			return in.Pos()
		}
	}
	for _, s := range b.Succs {
		for _, in := range s.Instrs {
			if in.Pos().IsValid() {
				return in.Pos()
			}
		}
	}
	return token.NoPos
}

// loopFrame: objects that existed when the loop was entered and are outside the
// loop's modifies clause have, in version a, the value they had at loop entry.
func (v *FnVerifier) loopFrame(name string, s Sort, li *loopInfo, a Term) Term {
	idx, _ := s.ArrParts()
	if idx != SRef {
		return TTrue
	}
	pre, ok := li.preState.arr[name]
	if !ok {
		pre = v.entryArr(name, s)
	}
	var ins []string
	for _, ml := range li.locs {
		for _, ar := range ml.arrs {
			if ar.name == name {
				ins = append(ins, inLoc(ml, ar, "r"))
			}
		}
	}
	// local variables of this function (allocations whose address never escapes) are not
	// part of the frame: loops may assign them freely and the invariants describe them
	for _, lr := range v.localRefs {
		// allocation ticks are unique, and sub-objects share their root's tick
		ins = append(ins, fmt.Sprintf("(= (birth r) (birth %s))", lr.S))
	}
	return T(SBool, "(forall ((r Ref)) (! (=> (and (< (birth r) %s) (not (or %s false))) (= (select %s r) (select %s r))) :pattern ((select %s r))))",
		li.preNow.S, strings.Join(ins, " "), a.S, pre.S, a.S)
}

// frameOf: "objects that existed at function entry and are outside the
// function's modifies clause have, in version a, the value they had at entry".
func (v *FnVerifier) frameOf(name string, s Sort, fnLocs []modLoc, a Term) Term {
	idx, _ := s.ArrParts()
	if idx != SRef {
		return TTrue
	}
	ent := v.entryArr(name, s)
	var ins []string
	for _, ml := range fnLocs {
		for _, ar := range ml.arrs {
			if ar.name == name {
				ins = append(ins, inLoc(ml, ar, "r"))
			}
		}
	}
	return T(SBool, "(forall ((r Ref)) (! (=> (and (< (birth r) %s) (not (or %s false))) (= (select %s r) (select %s r))) :pattern ((select %s r))))",
		v.now0.S, strings.Join(ins, " "), a.S, ent.S, a.S)
}

func (f *frame) backEdge(from, h *ssa.BasicBlock) {
	v := f.v
	li := f.loops[h]
	st := f.stateOut[from]
	if v.dry {
		key := f.loopKey(li)
		seen := map[string]bool{}
		for _, n := range v.loopMods[key] {
			seen[n] = true
		}
		for k, t := range st.arr {
			if old, ok := li.preState.arr[k]; !ok || old.S != t.S {
				if !seen[k] {
					seen[k] = true
					v.loopMods[key] = append(v.loopMods[key], k)
				}
			}
		}
		return
	}
	reach := f.edgeReach(from, h)
	idx := predIndex(h, from)
	vals := map[*ssa.Phi]Val{}
	for _, in := range h.Instrs {
		p, ok := in.(*ssa.Phi)
		if !ok {
			break
		}
		vals[p] = f.val(p.Edges[idx])
	}
	if li.spec != nil {
		env := f.loopEnv(li, vals, st)
		for _, cl := range li.spec.Clauses {
			switch cl.Kind {
			case "invariant":
				if !cl.HasTag(v.prop) {
					continue
				}
				goal := v.trClause(env, cl)
				v.oblige("inv-keep", fmt.Sprintf("%s/inv-keep#%d.%d@%d", v.fc.Key, li.ord, cl.Ord, li.edges), cl.Tags, reach, goal, v.pos(firstPos(h)), cl.Src)
			case "decreases":
				now := env.term(cl.E)
				goal := T(SBool, "(and (>= %s 0) (< %s %s))", li.decAt.S, now.S, li.decAt.S)
				v.pend("dec", fmt.Sprintf("%s/dec#%d", v.fc.Key, li.ord), []string{"C20"}, reach, goal, v.pos(firstPos(h)), cl.Src)
			}
		}
	}
	li.edges++
	// re-establish the auto frame invariant
	for _, name := range li.modArrs {
		s, ok := v.arrSort[name]
		if !ok || strings.HasPrefix(name, "G:") || strings.HasPrefix(name, "It:") {
			continue
		}
		cur, ok := st.arr[name]
		if !ok {
			continue
		}
		if g := v.loopFrame(name, s, li, cur); g.S != "true" {
			v.pend("inv-keep", fmt.Sprintf("%s/inv-keep#%d.frame:%s", v.fc.Key, li.ord, name), nil, reach, g, v.pos(firstPos(h)), "objects that existed before the loop and are outside its modifies clause keep their "+name)
		}
	}
	if _, isRange := rangeIndexPhi(h); li.spec == nil || (!li.hasDec && isRange == nil && rangeIter(h) == nil) {
		if p, _ := rangeIndexPhi(h); p == nil && rangeIter(h) == nil {
			v.note("loop #%d of %s has no decreases clause: termination not proved", li.ord, v.fc.Key)
		}
	}
}

// entryEnv: environment at function entry (contract parameter names).
func (v *FnVerifier) entryEnv() *TEnv {
	env := &TEnv{v: v, st: v.entry, vars: map[string]TV{}, bound: map[string]TV{}, pkg: v.fc.Pkg, nowOld: v.now0}
	for k, tv := range v.rootVars {
		env.vars[k] = tv
	}
	return env
}

var _ = types.Typ
