package main

import (
	"fmt"
	"go/token"
	"go/types"
	"sort"

	"golang.org/x/tools/go/ssa"
)

func (f *frame) execInstr(in ssa.Instruction) {
	v := f.v
	switch x := in.(type) {
	case *ssa.DebugRef:
		return
	case *ssa.Alloc:
		if f.stackStruct(x) {
			f.cur = f.cur.withStk(x, v.zeroVal(deref(x.Type())))
			f.env[x] = StackAddrV{A: x}
			return
		}
		if f.deadVarargs(x) {
			// argument array of an effect-free (logging/metrics/formatting) call: not modelled
			f.env[x] = v.ctx.Fresh("deadargs", SRef)
			return
		}
		r, st := v.allocZero(f.cur, "alloc:"+x.Comment, deref(x.Type()))
		f.cur = st
		f.env[x] = r
		if f.isRoot && nonEscaping(x) {
			v.localRefs = append(v.localRefs, r)
		}
	case *ssa.FieldAddr:
		if sa, ok := f.val(x.X).(StackAddrV); ok {
			f.env[x] = StackAddrV{A: sa.A, Path: append(append([]int(nil), sa.Path...), x.Field)}
			return
		}
		obj := asTerm(f.val(x.X))
		f.safety("nil", Not(Eq(obj, TNull)), x.Pos())
		st := deref(x.X.Type())
		ft := structOf(st).Field(x.Field).Type()
		switch kindOf(ft) {
		case KStruct, KArray:
			f.env[x] = v.ctx.Define("sub", v.subRef(obj, st, x.Field))
		case KUnit:
			f.env[x] = UnitV{}
		default:
			f.env[x] = AddrV{Obj: obj, T: st, Field: x.Field}
		}
	case *ssa.Field:
		sv, ok := f.val(x.X).(*StructV)
		if !ok {
			unsupp("Field of %T", f.val(x.X))
		}
		f.env[x] = sv.Get(x.Field)
	case *ssa.IndexAddr:
		if a, ok := x.X.(*ssa.Alloc); ok && f.deadVarargs(a) {
			f.env[x] = UnitV{}
			return
		}
		idx := asTerm(f.val(x.Index))
		switch xv := f.val(x.X).(type) {
		case SliceV:
			f.safety("index", T(SBool, "(and (<= 0 %s) (< %s %s))", idx.S, idx.S, xv.L.S), x.Pos())
			f.env[x] = v.ctx.Define("elem", T(SRef, "(at %s %s %s)", xv.B.S, xv.O.S, idx.S))
		case Term: // pointer to array
			at := deref(x.X.Type()).Underlying().(*types.Array)
			f.safety("nil", Not(Eq(xv, TNull)), x.Pos())
			f.safety("index", T(SBool, "(and (<= 0 %s) (< %s %d))", idx.S, idx.S, at.Len()), x.Pos())
			f.env[x] = v.ctx.Define("elem", T(SRef, "(elem %s %s)", xv.S, idx.S))
		default:
			unsupp("IndexAddr on %T", xv)
		}
	case *ssa.Index:
		unsupp("Index on array/string value")
	case *ssa.Lookup:
		f.execLookup(x)
	case *ssa.MapUpdate:
		f.execMapUpdate(x)
	case *ssa.Store:
		f.store(f.val(x.Addr), deref(x.Addr.Type()), f.val(x.Val), x.Pos())
	case *ssa.UnOp:
		f.execUnOp(x)
	case *ssa.BinOp:
		f.env[x] = f.binop(x.Op, f.val(x.X), f.val(x.Y), x.X.Type(), x.Pos())
	case *ssa.Call:
		f.execCall(x, &x.Call)
	case *ssa.Extract:
		tv, ok := f.val(x.Tuple).(TupleV)
		if !ok {
			unsupp("Extract from %T", f.val(x.Tuple))
		}
		f.env[x] = tv[x.Index]
	case *ssa.MakeSlice:
		ln := asTerm(f.val(x.Len))
		cp := asTerm(f.val(x.Cap))
		f.safety("makelen", T(SBool, "(and (<= 0 %s) (<= %s %s))", ln.S, ln.S, cp.S), x.Pos())
		r, st := v.alloc(f.cur, "make")
		f.cur = st
		sl := SliceV{B: r, O: IntLit(0), L: ln, C: cp, Elem: x.Type().Underlying().(*types.Slice).Elem()}
		if ln.S != "0" {
			f.zeroElems(sl)
		}
		f.env[x] = sl
	case *ssa.MakeMap:
		r, st := v.alloc(f.cur, "makemap")
		f.cur = st
		hasN, _, ks, _, _ := mapArrays(x.Type())
		hs := ArrSort(SRef, ArrSort(ks, SBool))
		f.cur = f.cur.with(hasN, v.ctx.Define(hasN, Store(v.arr(f.cur, hasN, hs), r, ZeroOf(ArrSort(ks, SBool)))))
		f.env[x] = r
	case *ssa.MakeChan:
		r, st := v.alloc(f.cur, "makechan")
		f.cur = st
		f.env[x] = r
	case *ssa.MakeInterface:
		f.env[x] = f.makeIface(x.X.Type(), f.val(x.X))
	case *ssa.ChangeInterface:
		f.env[x] = f.val(x.X)
	case *ssa.ChangeType:
		f.env[x] = f.val(x.X)
	case *ssa.Convert:
		f.env[x] = f.convert(x)
	case *ssa.TypeAssert:
		f.execTypeAssert(x)
	case *ssa.Slice:
		f.execSlice(x)
	case *ssa.Range:
		f.execRange(x)
	case *ssa.Next:
		f.execNext(x)
	case *ssa.MakeClosure:
		bs := make([]Val, len(x.Bindings))
		for i, b := range x.Bindings {
			bs[i] = f.val(b)
		}
		f.env[x] = &ClosureV{Fn: x.Fn.(*ssa.Function), Bindings: bs, Term: v.ctx.Fresh("closure", SFn)}
	case *ssa.Select:
		f.execSelect(x)
	case *ssa.Go:
		// a goroutine that writes nothing but its own locals (it may wait on and close channels, and log)
		// has no effect on modelled state; anything else is outside the subset
		callee := x.Call.StaticCallee()
		if callee == nil || !v.eng.pureByInspection(callee, 1) {
			unsupp("go statement at %s starts a goroutine that may write shared state", v.pos(x.Pos()))
		}
		v.note("go statement at %s treated as a no-op on modelled state (the goroutine only waits on / closes channels and logs)", v.pos(x.Pos()))
	case *ssa.Defer:
		if v.eng.effectFree(x.Call.StaticCallee(), &x.Call) {
			return
		}
		unsupp("defer of %s", x.Call.Value)
	case *ssa.RunDefers:
		return
	case *ssa.If:
		c := asTerm(f.val(x.Cond))
		b := x.Block()
		f.edgeCond[[2]int{b.Index, b.Succs[0].Index}] = c
		f.edgeCond[[2]int{b.Index, b.Succs[1].Index}] = Not(c)
	case *ssa.Jump:
		return
	case *ssa.Return:
		rs := make([]Val, len(x.Results))
		for i, r := range x.Results {
			rs[i] = f.val(r)
		}
		f.exits = append(f.exits, exit{reach: f.reach, state: f.cur, results: rs, pos: x.Pos()})
	case *ssa.Panic:
		f.safety("panic", TFalse, x.Pos())
	case *ssa.Send:
		unsupp("channel send")
	default:
		unsupp("instruction %T", in)
	}
}

func (f *frame) store(addr Val, t types.Type, val Val, pos token.Pos) {
	v := f.v
	switch a := addr.(type) {
	case StackAddrV:
		cur := f.cur.stk[a.A]
		f.cur = f.cur.withStk(a.A, setPath(cur, deref(a.A.Type()), a.Path, val))
	case AddrV:
		f.cur = v.storeField(f.cur, a.Obj, a.T, a.Field, val)
	case Term:
		f.safety("nil", Not(Eq(a, TNull)), pos)
		f.cur = v.storeCell(f.cur, a, t, val)
	case UnitV:
	default:
		unsupp("store through %T", addr)
	}
}

func (f *frame) load(addr Val, t types.Type, pos token.Pos) Val {
	v := f.v
	switch a := addr.(type) {
	case StackAddrV:
		cur := f.cur.stk[a.A]
		for _, i := range a.Path {
			cur = cur.(*StructV).Get(i)
		}
		return cur
	case AddrV:
		return v.loadField(f.cur, a.Obj, a.T, a.Field, false)
	case Term:
		f.safety("nil", Not(Eq(a, TNull)), pos)
		return v.loadCell(f.cur, a, t, false)
	case UnitV:
		return UnitV{}
	}
	unsupp("load through %T", addr)
	return nil
}

func (f *frame) execUnOp(x *ssa.UnOp) {
	v := f.v
	switch x.Op {
	case token.MUL:
		val := f.load(f.val(x.X), x.Type(), x.Pos())
		f.env[x] = v.nameVal(x.Name(), val)
	case token.NOT:
		f.env[x] = Not(asTerm(f.val(x.X)))
	case token.SUB:
		t := asTerm(f.val(x.X))
		f.env[x] = T(t.Sort, "(- %s)", t.S)
	case token.ARROW:
		unsupp("channel receive outside select")
	default:
		unsupp("unary %s", x.Op)
	}
}

func (f *frame) binop(op token.Token, a, b Val, t types.Type, pos token.Pos) Val {
	v := f.v
	x, y := asTerm(a), asTerm(b)
	if x.Sort != y.Sort {
		if x.S == "null" {
			x = ZeroOf(y.Sort)
		} else if y.S == "null" {
			y = ZeroOf(x.Sort)
		}
	}
	s := x.Sort
	switch op {
	case token.EQL:
		return Eq(x, y)
	case token.NEQ:
		return Not(Eq(x, y))
	case token.LSS, token.LEQ, token.GTR, token.GEQ:
		if s != SInt && s != SReal {
			unsupp("ordered comparison on %s", s)
		}
		sym := map[token.Token]string{token.LSS: "<", token.LEQ: "<=", token.GTR: ">", token.GEQ: ">="}[op]
		return T(SBool, "(%s %s %s)", sym, x.S, y.S)
	case token.ADD:
		if s == SStr {
			return T(SStr, "(strcat %s %s)", x.S, y.S)
		}
		return T(s, "(+ %s %s)", x.S, y.S)
	case token.SUB:
		return T(s, "(- %s %s)", x.S, y.S)
	case token.MUL:
		return T(s, "(* %s %s)", x.S, y.S)
	case token.QUO:
		if s == SReal {
			// IEEE division by zero does not panic; modelled as an unspecified real
			return T(SReal, "(/ %s %s)", x.S, y.S)
		}
		f.safety("div", Not(Eq(y, IntLit(0))), pos)
		return v.ctx.Define("quo", T(SInt, "(ite (>= %s 0) (div %s %s) (- (div (- %s) %s)))", x.S, x.S, y.S, x.S, y.S))
	case token.REM:
		f.safety("div", Not(Eq(y, IntLit(0))), pos)
		q := v.ctx.Define("quo", T(SInt, "(ite (>= %s 0) (div %s %s) (- (div (- %s) %s)))", x.S, x.S, y.S, x.S, y.S))
		return T(SInt, "(- %s (* %s %s))", x.S, y.S, q.S)
	case token.LAND:
		return And(x, y)
	case token.LOR:
		return Or(x, y)
	}
	v.note("operator %s at %s is not modelled: result unconstrained", op, v.pos(pos))
	return v.ctx.Fresh("opaque", s)
}

func (f *frame) convert(x *ssa.Convert) Val {
	v := f.v
	from, to := x.X.Type(), x.Type()
	val := f.val(x.X)
	if kindOf(from) != KScalar || kindOf(to) != KScalar {
		v.note("conversion %s -> %s at %s not modelled: result unconstrained", from, to, v.pos(x.Pos()))
		return v.freshVal("conv", to, f.cur)
	}
	fs, ts := sortOf(from), sortOf(to)
	t := asTerm(val)
	switch {
	case fs == ts:
		return t
	case fs == SInt && ts == SReal:
		return ToReal(t)
	case fs == SReal && ts == SInt:
		// Go truncates toward zero
		return v.truncOf(t)
	}
	v.note("conversion %s -> %s at %s not modelled: result unconstrained", from, to, v.pos(x.Pos()))
	return v.freshVal("conv", to, f.cur)
}

// ---------------------------------------------------------------- interfaces

func (v *FnVerifier) ifaceFns(t types.Type) (mk, un string, tag int, s Sort, ok bool) {
	if kindOf(t) != KScalar {
		return "", "", v.eng.tags.tag(t), "", false
	}
	s = sortOf(t)
	if s == SIface {
		return "", "", 0, s, false
	}
	tag = v.eng.tags.tag(t)
	mk = fmt.Sprintf("mk:%s", shortType(t))
	un = fmt.Sprintf("un:%s", shortType(t))
	if _, done := v.ctx.declared[mk]; !done {
		v.ctx.Declare(mk, []Sort{s}, SIface)
		v.ctx.Declare(un, []Sort{SIface}, s)
		v.ctx.AssertRaw(fmt.Sprintf("(assert (forall ((x %s)) (! (and (= (%s (%s x)) x) (= (itag (%s x)) %d)) :pattern ((%s x)))))", s, Sym(un), Sym(mk), Sym(mk), tag, Sym(mk)))
		if s == SRef {
			v.ctx.AssertRaw(fmt.Sprintf("(assert (forall ((x Ref)) (! (= (iref (%s x)) x) :pattern ((%s x)))))", Sym(mk), Sym(mk)))
		}
	}
	return mk, un, tag, s, true
}

func (f *frame) makeIface(t types.Type, val Val) Val {
	v := f.v
	mk, _, tag, _, ok := v.ifaceFns(t)
	if !ok {
		if tm, isT := val.(Term); isT && tm.Sort == SIface {
			return tm
		}
		r := v.ctx.Fresh("boxed", SIface)
		v.ctx.Assert(T(SBool, "(= (itag %s) %d)", r.S, tag))
		return r
	}
	return T(SIface, "(%s %s)", Sym(mk), asTerm(val).S)
}

func (f *frame) execTypeAssert(x *ssa.TypeAssert) {
	v := f.v
	iv := asTerm(f.val(x.X))
	var ok Term
	var res Val
	if _, isIface := x.AssertedType.Underlying().(*types.Interface); isIface {
		ok = v.ctx.Fresh("assertok", SBool)
		v.ctx.Assert(Implies(ok, Not(Eq(iv, ZeroOf(SIface)))))
		res = iv
	} else {
		_, un, tag, s, scalar := v.ifaceFns(x.AssertedType)
		ok = T(SBool, "(= (itag %s) %d)", iv.S, tag)
		if scalar {
			res = T(s, "(%s %s)", Sym(un), iv.S)
		} else {
			res = v.freshVal("asserted", x.AssertedType, f.cur)
		}
	}
	if x.CommaOk {
		f.env[x] = TupleV{res, ok}
	} else {
		f.safety("assert", ok, x.Pos())
		f.env[x] = res
	}
}

// ---------------------------------------------------------------- slices

func (f *frame) execSlice(x *ssa.Slice) {
	v := f.v
	if a, ok := x.X.(*ssa.Alloc); ok && f.deadVarargs(a) {
		at := deref(a.Type()).Underlying().(*types.Array)
		f.env[x] = SliceV{B: asTerm(f.val(a)), O: IntLit(0), L: IntLit(at.Len()), C: IntLit(at.Len()), Elem: at.Elem()}
		return
	}
	var lo, hi, mx Term
	get := func(e ssa.Value) (Term, bool) {
		if e == nil {
			return Term{}, false
		}
		return asTerm(f.val(e)), true
	}
	switch xv := f.val(x.X).(type) {
	case SliceV:
		var ok bool
		if lo, ok = get(x.Low); !ok {
			lo = IntLit(0)
		}
		if hi, ok = get(x.High); !ok {
			hi = xv.L
		}
		if mx, ok = get(x.Max); !ok {
			mx = xv.C
		}
		f.safety("slice", T(SBool, "(and (<= 0 %s) (<= %s %s) (<= %s %s) (<= %s %s))", lo.S, lo.S, hi.S, hi.S, mx.S, mx.S, xv.C.S), x.Pos())
		sub := v.nameVal("slice", SliceV{B: xv.B, O: T(SInt, "(+ %s %s)", xv.O.S, lo.S), L: T(SInt, "(- %s %s)", hi.S, lo.S), C: T(SInt, "(- %s %s)", mx.S, lo.S), Elem: xv.Elem}).(SliceV)
		if lo.S != "0" {
			// element j of the sub-slice is element lo+j of the original (stated with at-terms so that
			// quantified facts about the original slice can be instantiated for sub-slice elements)
			v.ctx.AssertRaw(fmt.Sprintf("(assert (forall ((j Int)) (! (= (at %s %s j) (at %s %s (+ %s j))) :pattern ((at %s %s j)))))", sub.B.S, sub.O.S, xv.B.S, xv.O.S, lo.S, sub.B.S, sub.O.S))
			// and the other way round: a known element of the original finds its name in the sub-slice
			v.ctx.AssertRaw(fmt.Sprintf("(assert (forall ((i Int)) (! (= (at %s %s i) (at %s %s (- i %s))) :pattern ((at %s %s i)))))", xv.B.S, xv.O.S, sub.B.S, sub.O.S, lo.S, xv.B.S, xv.O.S))
		}
		f.env[x] = sub
	case Term:
		if at, isArr := deref(x.X.Type()).Underlying().(*types.Array); isArr {
			n := IntLit(at.Len())
			var ok bool
			if lo, ok = get(x.Low); !ok {
				lo = IntLit(0)
			}
			if hi, ok = get(x.High); !ok {
				hi = n
			}
			if mx, ok = get(x.Max); !ok {
				mx = n
			}
			f.safety("nil", Not(Eq(xv, TNull)), x.Pos())
			f.safety("slice", T(SBool, "(and (<= 0 %s) (<= %s %s) (<= %s %s) (<= %s %s))", lo.S, lo.S, hi.S, hi.S, mx.S, mx.S, n.S), x.Pos())
			f.env[x] = v.nameVal("slice", SliceV{B: xv, O: lo, L: T(SInt, "(- %s %s)", hi.S, lo.S), C: T(SInt, "(- %s %s)", mx.S, lo.S), Elem: at.Elem()})
			return
		}
		if xv.Sort == SStr {
			v.note("string slicing at %s not modelled: result unconstrained", v.pos(x.Pos()))
			f.env[x] = v.ctx.Fresh("substr", SStr)
			return
		}
		unsupp("Slice of %s", x.X.Type())
	default:
		unsupp("Slice of %T", xv)
	}
}

// elemRef is the address of element i of a slice.
func elemRef(s SliceV, i Term) Term {
	return T(SRef, "(at %s %s %s)", s.B.S, s.O.S, i.S)
}

// cellArraysOf lists the (array name, sort) pairs that hold a value of type t
// stored in a cell (pointee / element), recursively through value structs.
func (v *FnVerifier) cellArraysOf(t types.Type) []arrRef {
	switch kindOf(t) {
	case KScalar:
		return []arrRef{{cellArray(t), ArrSort(SRef, sortOf(t)), nil}}
	case KSlice:
		n := cellArray(t)
		return []arrRef{{n + ".b", ArrSort(SRef, SRef), nil}, {n + ".o", ArrSort(SRef, SInt), nil}, {n + ".l", ArrSort(SRef, SInt), nil}, {n + ".c", ArrSort(SRef, SInt), nil}}
	case KStruct:
		return v.structArrays(t, nil)
	}
	return nil
}

type arrRef struct {
	name string
	sort Sort
	path []int // sub() field ids from the object ref
}

func (v *FnVerifier) structArrays(t types.Type, path []int) []arrRef {
	var out []arrRef
	s := structOf(t)
	for i := 0; i < s.NumFields(); i++ {
		ft := s.Field(i).Type()
		n := fieldArray(t, i)
		switch kindOf(ft) {
		case KScalar:
			out = append(out, arrRef{n, ArrSort(SRef, sortOf(ft)), path})
		case KSlice:
			out = append(out, arrRef{n + ".b", ArrSort(SRef, SRef), path}, arrRef{n + ".o", ArrSort(SRef, SInt), path}, arrRef{n + ".l", ArrSort(SRef, SInt), path}, arrRef{n + ".c", ArrSort(SRef, SInt), path})
		case KStruct:
			p2 := append(append([]int(nil), path...), v.eng.fids.id(t, i))
			out = append(out, v.structArrays(ft, p2)...)
		}
	}
	return out
}

func pathRef(r string, path []int) string {
	for _, p := range path {
		r = fmt.Sprintf("(sub %s %d)", r, p)
	}
	return r
}

// appendVals implements append(s, vals...) for explicit element values.
func (f *frame) appendSlice(s SliceV, add SliceV, single Val, pos token.Pos) SliceV {
	v := f.v
	et := s.Elem
	var n Term
	if single != nil {
		n = IntLit(1)
	} else {
		n = add.L
	}
	newLen := v.ctx.Define("applen", T(SInt, "(+ %s %s)", s.L.S, n.S))
	fits := v.ctx.Define("appfits", T(SBool, "(<= %s %s)", newLen.S, s.C.S))
	fresh, st := v.alloc(f.cur, "appbase")
	newCap := v.ctx.Fresh("appcap", SInt)
	v.ctx.Assert(T(SBool, "(>= %s %s)", newCap.S, newLen.S))
	res := SliceV{
		B:    v.ctx.Define("app.b", Ite(fits, s.B, fresh)),
		O:    v.ctx.Define("app.o", Ite(fits, s.O, IntLit(0))),
		L:    newLen,
		C:    v.ctx.Define("app.c", Ite(fits, s.C, newCap)),
		Elem: et,
	}
	// heap effect, per underlying array of the element type
	for _, ar := range v.cellArraysOf(et) {
		a := v.arr(st, ar.name, ar.sort)
		a2 := v.ctx.Fresh(ar.name, ar.sort)
		_, vs := ar.sort.ArrParts()
		v.arrAxioms(a2, ar.sort, st.now)
		// cell(k) = path applied to element ref k of result
		// forall r: a2[r] = case
		//   r is (path of) result element i, 0<=i<len(s)  -> a[path of s element i]
		//   r is (path of) result element len(s)+j, 0<=j<n -> appended value j
		//   else a[r]
		// We state it element-wise (by index) plus a frame for everything else.
		resElem := func(i string) string {
			return pathRef(fmt.Sprintf("(at %s %s %s)", res.B.S, res.O.S, i), ar.path)
		}
		srcElem := func(i string) string {
			return pathRef(fmt.Sprintf("(at %s %s %s)", s.B.S, s.O.S, i), ar.path)
		}
		// old part
		// (second pattern: a known element of the source finds its copy, for existential goals)
		v.ctx.AssertRaw(fmt.Sprintf("(assert (forall ((i Int)) (! (=> (and (<= 0 i) (< i %s)) (= (select %s %s) (select %s %s))) :pattern ((select %s %s)) :pattern ((select %s %s)))))",
			s.L.S, a2.S, resElem("i"), a.S, srcElem("i"), a2.S, resElem("i"), a.S, srcElem("i")))
		// appended part
		if single != nil {
			var leaf Term
			leaf = f.leafOf(single, et, ar)
			v.ctx.AssertRaw(fmt.Sprintf("(assert (= (select %s %s) %s))", a2.S, resElem(s.L.S), v.coerce(leaf, vs).S))
		} else {
			addElem := func(j string) string {
				return pathRef(fmt.Sprintf("(at %s %s %s)", add.B.S, add.O.S, j), ar.path)
			}
			// indexed by the position in the result, so that a read of any result element finds it
			v.ctx.AssertRaw(fmt.Sprintf("(assert (forall ((i Int)) (! (=> (and (<= %s i) (< i %s)) (= (select %s %s) (select %s %s))) :pattern ((select %s %s)))))",
				s.L.S, newLen.S, a2.S, resElem("i"), a.S, addElem(fmt.Sprintf("(- i %s)", s.L.S)), a2.S, resElem("i")))
			// and by the position in what was appended, so that a known appended element finds its copy
			v.ctx.AssertRaw(fmt.Sprintf("(assert (forall ((j Int)) (! (=> (and (<= 0 j) (< j %s)) (= (select %s %s) (select %s %s))) :pattern ((select %s %s)))))",
				n.S, a2.S, resElem(fmt.Sprintf("(+ %s j)", s.L.S)), a.S, addElem("j"), a.S, addElem("j")))
		}
		// frame: cells that are not written keep their value. In place only the appended
		// elements [len(s), newLen) are written; otherwise all of the fresh backing array.
		writeLo := Ite(fits, T(SInt, "(+ %s %s)", s.O.S, s.L.S), IntLit(0))
		depth := len(ar.path)
		base := "r"
		for i := 0; i < depth; i++ {
			base = "(parent " + base + ")"
		}
		v.ctx.AssertRaw(fmt.Sprintf("(assert (forall ((r Ref)) (! (=> (not (and (= (elemBase %s) %s) (<= %s (elemIdx %s)) (< (elemIdx %s) (+ %s %s)) (= r %s))) (= (select %s r) (select %s r))) :pattern ((select %s r)))))",
			base, res.B.S, writeLo.S, base, base, res.O.S, newLen.S,
			pathRef(fmt.Sprintf("(elem %s (elemIdx %s))", res.B.S, base), ar.path),
			a2.S, a.S, a2.S))
		st = st.with(ar.name, a2)
	}
	f.cur = st
	_ = pos
	return res
}

// leafOf extracts from value val (of type t) the leaf stored in array ar.
func (f *frame) leafOf(val Val, t types.Type, ar arrRef) Term {
	v := f.v
	switch kindOf(t) {
	case KScalar:
		return asTerm(val)
	case KSlice:
		sl := val.(SliceV)
		switch ar.name[len(ar.name)-2:] {
		case ".b":
			return sl.B
		case ".o":
			return sl.O
		case ".l":
			return sl.L
		case ".c":
			return sl.C
		}
	case KStruct:
		// find the field whose array this is
		var find func(val Val, t types.Type, path []int) (Term, bool)
		find = func(val Val, t types.Type, path []int) (Term, bool) {
			s := structOf(t)
			sv := val.(*StructV)
			for i := 0; i < s.NumFields(); i++ {
				ft := s.Field(i).Type()
				n := fieldArray(t, i)
				switch kindOf(ft) {
				case KScalar:
					if n == ar.name && samePath(path, ar.path) {
						return asTerm(sv.Get(i)), true
					}
				case KSlice:
					if len(ar.name) > 2 && n == ar.name[:len(ar.name)-2] && samePath(path, ar.path) {
						sl := sv.Get(i).(SliceV)
						switch ar.name[len(ar.name)-2:] {
						case ".b":
							return sl.B, true
						case ".o":
							return sl.O, true
						case ".l":
							return sl.L, true
						case ".c":
							return sl.C, true
						}
					}
				case KStruct:
					p2 := append(append([]int(nil), path...), v.eng.fids.id(t, i))
					if r, ok := find(sv.Get(i), ft, p2); ok {
						return r, true
					}
				}
			}
			return Term{}, false
		}
		if r, ok := find(val, t, nil); ok {
			return r
		}
	}
	unsupp("leafOf: no leaf %s in %s", ar.name, t)
	return Term{}
}

func samePath(a, b []int) bool {
	if len(a) != len(b) {
		return false
	}
	for i := range a {
		if a[i] != b[i] {
			return false
		}
	}
	return true
}

// ---------------------------------------------------------------- maps

func mapArrays(t types.Type) (has, val string, ks, vs Sort, vt types.Type) {
	m := t.Underlying().(*types.Map)
	ks = sortOf(m.Key())
	n := "Map:" + shortType(m.Key()) + ":" + shortType(m.Elem())
	if kindOf(m.Elem()) == KScalar {
		vs = sortOf(m.Elem())
	} else {
		vs = "" // non-scalar map values are not modelled
	}
	return n + ".has", n + ".val", ks, vs, m.Elem()
}

func (f *frame) execLookup(x *ssa.Lookup) {
	v := f.v
	if _, isMap := x.X.Type().Underlying().(*types.Map); !isMap {
		v.note("string indexing at %s not modelled", v.pos(x.Pos()))
		f.env[x] = v.freshVal("strbyte", x.Type(), f.cur)
		return
	}
	m := asTerm(f.val(x.X))
	k := asTerm(f.val(x.Index))
	hasN, valN, ks, vs, vt := mapArrays(x.X.Type())
	has := Select(Select(v.arr(f.cur, hasN, ArrSort(SRef, ArrSort(ks, SBool))), m), k)
	var val Val
	if vs != "" {
		raw := Select(Select(v.arr(f.cur, valN, ArrSort(SRef, ArrSort(ks, vs))), m), k)
		val = v.ctx.Define("mapval", Ite(has, raw, ZeroOf(vs)))
		if vs == SRef {
			v.ctx.Assert(T(SBool, "(< (birth %s) %s)", asTerm(val).S, f.cur.now.S))
		}
	} else if kindOf(vt) == KSlice {
		// slice-valued maps: value components in four arrays
		val = f.mapSliceVal(valN, m, k, has, vt)
	} else {
		val = v.freshVal("mapval", vt, f.cur)
		v.note("map with %s values at %s: values unconstrained", vt, v.pos(x.Pos()))
	}
	if x.CommaOk {
		f.env[x] = TupleV{val, v.ctx.Define("maphas", has)}
	} else {
		f.env[x] = val
	}
}

func (f *frame) mapSliceVal(valN string, m, k, has Term, vt types.Type) Val {
	v := f.v
	ks := k.Sort
	comp := func(suf string, s Sort) Term {
		raw := Select(Select(v.arr(f.cur, valN+suf, ArrSort(SRef, ArrSort(ks, s))), m), k)
		return v.ctx.Define("mapval"+suf, Ite(has, raw, ZeroOf(s)))
	}
	sl := SliceV{B: comp(".b", SRef), O: comp(".o", SInt), L: comp(".l", SInt), C: comp(".c", SInt), Elem: vt.Underlying().(*types.Slice).Elem()}
	v.ctx.Assert(v.sliceWF(sl, f.cur))
	return sl
}

func (f *frame) execMapUpdate(x *ssa.MapUpdate) {
	v := f.v
	m := asTerm(f.val(x.Map))
	k := asTerm(f.val(x.Key))
	f.safety("mapnil", Not(Eq(m, TNull)), x.Pos())
	hasN, valN, ks, vs, vt := mapArrays(x.Map.Type())
	hs := ArrSort(SRef, ArrSort(ks, SBool))
	ha := v.arr(f.cur, hasN, hs)
	f.cur = f.cur.with(hasN, v.ctx.Define(hasN, Store(ha, m, Store(Select(ha, m), k, TTrue))))
	upd := func(name string, s Sort, val Term) {
		as := ArrSort(SRef, ArrSort(ks, s))
		a := v.arr(f.cur, name, as)
		f.cur = f.cur.with(name, v.ctx.Define(name, Store(a, m, Store(Select(a, m), k, v.coerce(val, s)))))
	}
	if vs != "" {
		upd(valN, vs, asTerm(f.val(x.Value)))
	} else if kindOf(vt) == KSlice {
		sl := f.val(x.Value).(SliceV)
		upd(valN+".b", SRef, sl.B)
		upd(valN+".o", SInt, sl.O)
		upd(valN+".l", SInt, sl.L)
		upd(valN+".c", SInt, sl.C)
	} else {
		v.note("map update with %s values at %s: value dropped", vt, v.pos(x.Pos()))
	}
}

func (f *frame) mapDelete(mt types.Type, m, k Term) {
	v := f.v
	hasN, _, ks, _, _ := mapArrays(mt)
	hs := ArrSort(SRef, ArrSort(ks, SBool))
	ha := v.arr(f.cur, hasN, hs)
	// delete on a nil map is a no-op; null's row is all-false anyway
	f.cur = f.cur.with(hasN, v.ctx.Define(hasN, Store(ha, m, Store(Select(ha, m), k, TFalse))))
}

// Range/Next over maps: the iterator owns a ghost set of visited keys.
func iterKey(x *ssa.Range) string {
	return fmt.Sprintf("It:%s:%s", x.Parent().Name(), x.Name())
}

func (f *frame) execRange(x *ssa.Range) {
	v := f.v
	if _, isMap := x.X.Type().Underlying().(*types.Map); !isMap {
		unsupp("range over string")
	}
	_, _, ks, _, _ := mapArrays(x.X.Type())
	key := iterKey(x)
	s := ArrSort(ks, SBool)
	v.arrSort[key] = s
	f.cur = f.cur.with(key, ZeroOf(s))
	f.env[x] = f.val(x.X)
}

func (f *frame) execNext(x *ssa.Next) {
	v := f.v
	if x.IsString {
		unsupp("range over string")
	}
	rg := x.Iter.(*ssa.Range)
	m := asTerm(f.val(rg))
	hasN, valN, ks, vs, vt := mapArrays(rg.X.Type())
	key := iterKey(rg)
	seenS := ArrSort(ks, SBool)
	seen, ok := f.cur.arr[key]
	if !ok {
		seen = ZeroOf(seenS)
	}
	row := Select(v.arr(f.cur, hasN, ArrSort(SRef, ArrSort(ks, SBool))), m)
	okT := v.ctx.Fresh("next.ok", SBool)
	k := v.ctx.Fresh("next.k", ks)
	v.ctx.Assert(Implies(okT, And(Select(row, k), Not(Select(seen, k)))))
	// exhausted: every key present has been seen
	v.ctx.AssertRaw(fmt.Sprintf("(assert (=> (not %s) (forall ((k %s)) (! (=> (select %s k) (select %s k)) :pattern ((select %s k))))))", okT.S, ks, row.S, seen.S, row.S))
	f.cur = f.cur.with(key, v.ctx.Define(key, Ite(okT, Store(seen, k, TTrue), seen)))
	var val Val
	if vs != "" {
		val = Select(Select(v.arr(f.cur, valN, ArrSort(SRef, ArrSort(ks, vs))), m), k)
		if vs == SRef {
			v.ctx.Assert(T(SBool, "(< (birth %s) %s)", asTerm(val).S, f.cur.now.S))
		}
	} else if kindOf(vt) == KSlice {
		val = f.mapSliceVal(valN, m, k, TTrue, vt)
	} else {
		val = v.freshVal("next.v", vt, f.cur)
	}
	f.env[x] = TupleV{okT, k, val}
}

func (f *frame) execSelect(x *ssa.Select) {
	v := f.v
	n := len(x.States)
	idx := v.ctx.Fresh("select.idx", SInt)
	lo := 0
	if !x.Blocking {
		lo = -1
	}
	v.ctx.Assert(T(SBool, "(and (<= %d %s) (< %s %d))", lo, idx.S, idx.S, n))
	out := TupleV{idx, v.ctx.Fresh("select.ok", SBool)}
	for _, s := range x.States {
		if s.Dir == types.RecvOnly {
			out = append(out, v.freshVal("select.recv", s.Chan.Type().Underlying().(*types.Chan).Elem(), f.cur))
		}
	}
	v.note("select at %s is a non-deterministic choice of a case (timers/channels are not modelled)", v.pos(x.Pos()))
	f.env[x] = out
}

// zeroElems makes elements [0,len) of a freshly made slice zero.
func (f *frame) zeroElems(sl SliceV) {
	v := f.v
	for _, ar := range v.cellArraysOf(sl.Elem) {
		a := v.arr(f.cur, ar.name, ar.sort)
		a2 := v.ctx.Fresh(ar.name, ar.sort)
		v.arrAxioms(a2, ar.sort, f.cur.now)
		_, vs := ar.sort.ArrParts()
		el := pathRef(fmt.Sprintf("(elem %s i)", sl.B.S), ar.path)
		v.ctx.AssertRaw(fmt.Sprintf("(assert (forall ((i Int)) (! (=> (and (<= 0 i) (< i %s)) (= (select %s %s) %s)) :pattern ((select %s %s)))))", sl.C.S, a2.S, el, ZeroOf(vs).S, a2.S, el))
		base := "r"
		for i := 0; i < len(ar.path); i++ {
			base = "(parent " + base + ")"
		}
		// everything that is not an element (path) of the new backing array keeps its value
		v.ctx.AssertRaw(fmt.Sprintf("(assert (forall ((r Ref)) (! (=> (not (and (= (elemBase %s) %s) (= r %s))) (= (select %s r) (select %s r))) :pattern ((select %s r)))))",
			base, sl.B.S, pathRef(fmt.Sprintf("(elem %s (elemIdx %s))", sl.B.S, base), ar.path), a2.S, a.S, a2.S))
		f.cur = f.cur.with(ar.name, a2)
	}
}

// deadVarargs: the alloc is the hidden array of a variadic call whose callee is
// effect-free (its contents can influence nothing that is modelled).
func (f *frame) deadVarargs(a *ssa.Alloc) bool {
	if a.Comment != "varargs" {
		return false
	}
	if d, ok := f.deadMemo[a]; ok {
		return d
	}
	if f.deadMemo == nil {
		f.deadMemo = map[*ssa.Alloc]bool{}
	}
	dead := true
	for _, r := range *a.Referrers() {
		switch u := r.(type) {
		case *ssa.IndexAddr:
			for _, r2 := range *u.Referrers() {
				if st, ok := r2.(*ssa.Store); !ok || st.Addr != u {
					dead = false
				}
			}
		case *ssa.Slice:
			for _, r2 := range *u.Referrers() {
				switch c := r2.(type) {
				case *ssa.Call:
					if !f.v.eng.effectFree(c.Call.StaticCallee(), &c.Call) || f.v.eng.db.Funcs[f.calleeKey(&c.Call)] != nil {
						dead = false
					}
				case *ssa.DebugRef:
				default:
					dead = false
				}
			}
		case *ssa.DebugRef:
		default:
			dead = false
		}
	}
	f.deadMemo[a] = dead
	return dead
}

func (f *frame) calleeKey(call *ssa.CallCommon) string {
	if fn := call.StaticCallee(); fn != nil {
		return f.v.eng.funcKey(fn)
	}
	if call.IsInvoke() {
		return f.v.eng.ifaceKey(call.Value.Type(), call.Method)
	}
	return ""
}

// setPath returns struct value sv (of type t) with the field at path replaced by val.
func setPath(sv Val, t types.Type, path []int, val Val) Val {
	if len(path) == 0 {
		return val
	}
	old := sv.(*StructV)
	st := structOf(t)
	i := path[0]
	inner := setPath(old.Get(i), st.Field(i).Type(), path[1:], val)
	return &StructV{T: t, get: func(j int) Val {
		if j == i {
			return inner
		}
		return old.Get(j)
	}}
}

// stackStruct: a struct-typed local whose address never escapes and that is not carried
// around a loop: it is kept by value instead of in the heap arrays.
func (f *frame) stackStruct(a *ssa.Alloc) bool {
	if d, ok := f.stkMemo[a]; ok {
		return d
	}
	if f.stkMemo == nil {
		f.stkMemo = map[*ssa.Alloc]bool{}
	}
	ok := kindOf(deref(a.Type())) == KStruct && f.loops != nil
	home := f.loopSet(a.Block())
	var check func(v ssa.Value) bool
	check = func(v ssa.Value) bool {
		for _, r := range *v.Referrers() {
			switch u := r.(type) {
			case *ssa.DebugRef:
			case *ssa.FieldAddr:
				ft := structOf(deref(u.X.Type())).Field(u.Field).Type()
				if kindOf(ft) == KArray {
					return false
				}
				if !check(u) {
					return false
				}
			case *ssa.Store:
				if u.Addr != v {
					return false // the address itself is stored somewhere
				}
				if f.loopSet(u.Block()) != home {
					return false
				}
			case *ssa.UnOp:
				if u.Op != token.MUL {
					return false
				}
			default:
				return false
			}
		}
		return true
	}
	if ok {
		ok = check(a)
	}
	f.stkMemo[a] = ok
	return ok
}

// loopSet identifies the set of loops a block belongs to.
func (f *frame) loopSet(b *ssa.BasicBlock) string {
	var hs []int
	for h, li := range f.loops {
		if li.body[b] {
			hs = append(hs, h.Index)
		}
	}
	sort.Ints(hs)
	return fmt.Sprint(hs)
}

// nonEscaping: the allocation's address is only ever used to read and write it (fields included).
func nonEscaping(a *ssa.Alloc) bool {
	var check func(v ssa.Value) bool
	check = func(v ssa.Value) bool {
		for _, r := range *v.Referrers() {
			switch u := r.(type) {
			case *ssa.DebugRef:
			case *ssa.FieldAddr:
				if !check(u) {
					return false
				}
			case *ssa.Store:
				if u.Addr != v {
					return false
				}
			case *ssa.UnOp:
				if u.Op != token.MUL {
					return false
				}
			default:
				return false
			}
		}
		return true
	}
	return check(a)
}

// copySlice models copy(dst, src): n = min(len(dst), len(src)) elements of src are written over the first n
// of dst (reading the old contents, as memmove does); nothing else changes; returns n.
func (f *frame) copySlice(dst, src SliceV) Val {
	v := f.v
	n := v.ctx.Define("copyn", Ite(T(SBool, "(<= %s %s)", dst.L.S, src.L.S), dst.L, src.L))
	st := f.cur
	for _, ar := range v.cellArraysOf(dst.Elem) {
		a := v.arr(st, ar.name, ar.sort)
		a2 := v.ctx.Fresh(ar.name, ar.sort)
		v.arrAxioms(a2, ar.sort, st.now)
		dstElem := func(i string) string {
			return pathRef(fmt.Sprintf("(at %s %s %s)", dst.B.S, dst.O.S, i), ar.path)
		}
		srcElem := func(i string) string {
			return pathRef(fmt.Sprintf("(at %s %s %s)", src.B.S, src.O.S, i), ar.path)
		}
		v.ctx.AssertRaw(fmt.Sprintf("(assert (forall ((i Int)) (! (=> (and (<= 0 i) (< i %s)) (= (select %s %s) (select %s %s))) :pattern ((select %s %s)) :pattern ((select %s %s)))))",
			n.S, a2.S, dstElem("i"), a.S, srcElem("i"), a2.S, dstElem("i"), a.S, srcElem("i")))
		base := "r"
		for k := 0; k < len(ar.path); k++ {
			base = "(parent " + base + ")"
		}
		v.ctx.AssertRaw(fmt.Sprintf("(assert (forall ((r Ref)) (! (=> (not (and (= (elemBase %s) %s) (<= %s (elemIdx %s)) (< (elemIdx %s) (+ %s %s)) (= r %s))) (= (select %s r) (select %s r))) :pattern ((select %s r)))))",
			base, dst.B.S, dst.O.S, base, base, dst.O.S, n.S,
			pathRef(fmt.Sprintf("(elem %s (elemIdx %s))", dst.B.S, base), ar.path), a2.S, a.S, a2.S))
		st = st.with(ar.name, a2)
	}
	f.cur = st
	return n
}
