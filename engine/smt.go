package main

import (
	"fmt"
	"sort"
	"strings"
)

// Sort is an SMT-LIB sort, written out.
type Sort string

const (
	SInt   Sort = "Int"
	SBool  Sort = "Bool"
	SReal  Sort = "Real"
	SStr   Sort = "Str"
	SRef   Sort = "Ref"
	SIface Sort = "Iface"
	SFn    Sort = "Fn"
	SQty   Sort = "Qty"
	SUnit  Sort = "Unit" // never emitted; zero-width values
)

func ArrSort(idx, val Sort) Sort { return Sort("(Array " + string(idx) + " " + string(val) + ")") }

func (s Sort) IsArray() bool { return strings.HasPrefix(string(s), "(Array ") }

// ArrParts splits "(Array I V)" into I and V.
func (s Sort) ArrParts() (Sort, Sort) {
	str := string(s)
	str = strings.TrimSuffix(strings.TrimPrefix(str, "(Array "), ")")
	// first component may itself be parenthesised
	depth := 0
	for i, ch := range str {
		switch ch {
		case '(':
			depth++
		case ')':
			depth--
		case ' ':
			if depth == 0 {
				return Sort(str[:i]), Sort(str[i+1:])
			}
		}
	}
	panic("bad array sort " + string(s))
}

// Term is an SMT term with its sort.
type Term struct {
	S    string
	Sort Sort
}

func T(sort Sort, format string, args ...interface{}) Term {
	return Term{S: fmt.Sprintf(format, args...), Sort: sort}
}

func IntLit(n int64) Term {
	if n < 0 {
		return Term{fmt.Sprintf("(- %d)", -n), SInt}
	}
	return Term{fmt.Sprintf("%d", n), SInt}
}
func BoolLit(b bool) Term {
	if b {
		return Term{"true", SBool}
	}
	return Term{"false", SBool}
}

var (
	TTrue  = Term{"true", SBool}
	TFalse = Term{"false", SBool}
	TNull  = Term{"null", SRef}
)

func And(ts ...Term) Term {
	var parts []string
	for _, t := range ts {
		if t.S == "true" {
			continue
		}
		if t.S == "false" {
			return TFalse
		}
		parts = append(parts, t.S)
	}
	switch len(parts) {
	case 0:
		return TTrue
	case 1:
		return Term{parts[0], SBool}
	}
	return Term{"(and " + strings.Join(parts, " ") + ")", SBool}
}
func Or(ts ...Term) Term {
	var parts []string
	for _, t := range ts {
		if t.S == "false" {
			continue
		}
		if t.S == "true" {
			return TTrue
		}
		parts = append(parts, t.S)
	}
	switch len(parts) {
	case 0:
		return TFalse
	case 1:
		return Term{parts[0], SBool}
	}
	return Term{"(or " + strings.Join(parts, " ") + ")", SBool}
}
func Not(t Term) Term {
	switch t.S {
	case "true":
		return TFalse
	case "false":
		return TTrue
	}
	return Term{"(not " + t.S + ")", SBool}
}
func Implies(a, b Term) Term {
	if a.S == "true" {
		return b
	}
	if a.S == "false" || b.S == "true" {
		return TTrue
	}
	return Term{"(=> " + a.S + " " + b.S + ")", SBool}
}
func Eq(a, b Term) Term {
	if a.S == b.S {
		return TTrue
	}
	return Term{"(= " + a.S + " " + b.S + ")", SBool}
}
func Ite(c, a, b Term) Term {
	if c.S == "true" {
		return a
	}
	if c.S == "false" {
		return b
	}
	if a.S == b.S {
		return a
	}
	return Term{"(ite " + c.S + " " + a.S + " " + b.S + ")", a.Sort}
}
func Select(a, i Term) Term {
	_, v := a.Sort.ArrParts()
	return Term{"(select " + a.S + " " + i.S + ")", v}
}
func Store(a, i, v Term) Term {
	return Term{"(store " + a.S + " " + i.S + " " + v.S + ")", a.Sort}
}
func App(sort Sort, f string, args ...Term) Term {
	if len(args) == 0 {
		return Term{f, sort}
	}
	parts := make([]string, len(args))
	for i, a := range args {
		parts[i] = a.S
	}
	return Term{"(" + f + " " + strings.Join(parts, " ") + ")", sort}
}

// ToReal coerces an Int term to Real.
func ToReal(t Term) Term {
	if t.Sort == SReal {
		return t
	}
	return Term{"(to_real " + t.S + ")", SReal}
}

// Sym quotes a symbol for SMT-LIB.
func Sym(s string) string {
	simple := true
	for _, ch := range s {
		if !(ch >= 'a' && ch <= 'z' || ch >= 'A' && ch <= 'Z' || ch >= '0' && ch <= '9' || ch == '_' || ch == '.' || ch == '!' || ch == '$' || ch == '@') {
			simple = false
			break
		}
	}
	if simple && len(s) > 0 && !(s[0] >= '0' && s[0] <= '9') {
		return s
	}
	s = strings.ReplaceAll(s, "|", "/")
	s = strings.ReplaceAll(s, "\\", "/")
	return "|" + s + "|"
}

// ZeroOf returns the zero value term of a sort.
func ZeroOf(s Sort) Term {
	switch s {
	case SInt:
		return IntLit(0)
	case SBool:
		return TFalse
	case SReal:
		return Term{"0.0", SReal}
	case SStr:
		return Term{"str_empty", SStr}
	case SRef:
		return TNull
	case SIface:
		return Term{"nil_iface", SIface}
	case SFn:
		return Term{"nil_fn", SFn}
	case SQty:
		return Term{"qty_zero", SQty}
	}
	if s.IsArray() {
		_, v := s.ArrParts()
		return Term{"((as const " + string(s) + ") " + ZeroOf(v).S + ")", s}
	}
	panic("no zero for sort " + string(s))
}

// Ctx accumulates declarations and assertions for one verification unit
// (one function under contract). Everything is named, so terms stay small.
type Ctx struct {
	decls    []string
	declared map[string]Sort
	asserts  []string
	nfresh   int
	strLits  map[string]string // literal -> symbol
	strOrder []string
	notes    []string
}

func NewCtx() *Ctx {
	return &Ctx{declared: map[string]Sort{}, strLits: map[string]string{}}
}

const preamble = `(set-option :produce-models true)
(set-logic ALL)
(declare-sort Ref 0)
(declare-sort Str 0)
(declare-sort Iface 0)
(declare-sort Fn 0)
(declare-sort Qty 0)
(declare-fun null () Ref)
(declare-fun str_empty () Str)
(declare-fun nil_iface () Iface)
(declare-fun nil_fn () Fn)
(declare-fun qty_zero () Qty)
(declare-fun birth (Ref) Int)
(declare-fun sub (Ref Int) Ref)
(declare-fun parent (Ref) Ref)
(declare-fun fieldOf (Ref) Int)
(declare-fun elem (Ref Int) Ref)
(declare-fun elemBase (Ref) Ref)
(declare-fun elemIdx (Ref) Int)
(declare-fun kindOf (Ref) Int)
(declare-fun at (Ref Int Int) Ref)
(declare-fun strlen (Str) Int)
(declare-fun strcat (Str Str) Str)
(declare-fun itag (Iface) Int)
(declare-fun iref (Iface) Ref)
(declare-fun maplen ((Array Str Bool)) Int)
(assert (= (birth null) (- 1)))
(assert (= (kindOf null) 0))
(assert (forall ((r Ref) (k Int)) (! (and (= (parent (sub r k)) r) (= (fieldOf (sub r k)) k) (= (kindOf (sub r k)) 1) (= (birth (sub r k)) (birth r))) :pattern ((sub r k)))))
(assert (forall ((r Ref) (k Int)) (! (and (= (elemBase (elem r k)) r) (= (elemIdx (elem r k)) k) (= (kindOf (elem r k)) 2) (= (birth (elem r k)) (birth r))) :pattern ((elem r k)))))
(assert (forall ((b Ref) (o Int) (i Int)) (! (= (at b o i) (elem b (+ o i))) :pattern ((at b o i)))))
(assert (forall ((s Str)) (! (and (>= (strlen s) 0) (= (= (strlen s) 0) (= s str_empty))) :pattern ((strlen s)))))
(assert (= (itag nil_iface) 0))
(assert (= (iref nil_iface) null))
`

func (c *Ctx) Declare(name string, args []Sort, ret Sort) {
	if _, ok := c.declared[name]; ok {
		return
	}
	c.declared[name] = ret
	as := make([]string, len(args))
	for i, a := range args {
		as[i] = string(a)
	}
	c.decls = append(c.decls, fmt.Sprintf("(declare-fun %s (%s) %s)", Sym(name), strings.Join(as, " "), ret))
}

// Const declares (once) and returns a named constant.
func (c *Ctx) Const(name string, s Sort) Term {
	c.Declare(name, nil, s)
	return Term{Sym(name), s}
}

// Fresh declares a fresh constant.
func (c *Ctx) Fresh(prefix string, s Sort) Term {
	c.nfresh++
	return c.Const(fmt.Sprintf("%s!%d", prefix, c.nfresh), s)
}

func (c *Ctx) Assert(t Term) {
	if t.S == "true" {
		return
	}
	c.asserts = append(c.asserts, "(assert "+t.S+")")
}

func (c *Ctx) AssertRaw(s string) { c.asserts = append(c.asserts, s) }

// Define names a term: returns a fresh constant asserted equal to t.
func (c *Ctx) Define(prefix string, t Term) Term {
	// do not name literals or plain symbols
	if !strings.HasPrefix(t.S, "(") {
		return t
	}
	k := c.Fresh(prefix, t.Sort)
	c.Assert(Eq(k, t))
	return k
}

// StrLit returns the constant for a string literal; all literals are distinct
// and have their real length.
func (c *Ctx) StrLit(s string) Term {
	if s == "" {
		return Term{"str_empty", SStr}
	}
	if sym, ok := c.strLits[s]; ok {
		return Term{sym, SStr}
	}
	name := fmt.Sprintf("str\"%s\"", s)
	if len(name) > 60 {
		name = fmt.Sprintf("%s..#%d", name[:50], len(c.strLits))
	}
	sym := Sym(name)
	c.strLits[s] = sym
	c.strOrder = append(c.strOrder, s)
	c.decls = append(c.decls, fmt.Sprintf("(declare-fun %s () Str)", sym))
	c.decls = append(c.decls, fmt.Sprintf("(assert (= (strlen %s) %d))", sym, len(s)))
	return Term{sym, SStr}
}

func (c *Ctx) Mark() int { return len(c.asserts) }

// Query renders a full SMT-LIB script: everything asserted up to mark, then
// the extra assertions, then check-sat/get-model.
func (c *Ctx) Query(mark int, extra []string, wantModel bool) string {
	var b strings.Builder
	b.WriteString(preamble)
	for _, d := range c.decls {
		b.WriteString(d)
		b.WriteByte('\n')
	}
	if len(c.strOrder) > 0 {
		syms := []string{"str_empty"}
		lits := append([]string(nil), c.strOrder...)
		sort.Strings(lits)
		for _, l := range lits {
			syms = append(syms, c.strLits[l])
		}
		if len(syms) > 1 {
			b.WriteString("(assert (distinct " + strings.Join(syms, " ") + "))\n")
		}
	}
	for _, a := range c.asserts[:mark] {
		b.WriteString(a)
		b.WriteByte('\n')
	}
	for _, a := range extra {
		b.WriteString(a)
		b.WriteByte('\n')
	}
	b.WriteString("(check-sat)\n")
	if wantModel {
		b.WriteString("(get-model)\n")
	}
	return b.String()
}
