package main

import (
	"fmt"
	"go/ast"
	"go/token"
	"go/types"
	"os"
	"path/filepath"
	"regexp"
	"sort"
	"strings"

	"golang.org/x/tools/go/packages"
	"golang.org/x/tools/go/ssa"
	"golang.org/x/tools/go/ssa/ssautil"
)

type Engine struct {
	fset      *token.FileSet
	pkgs      []*packages.Package
	pkgByPath map[string]*packages.Package
	prog      *ssa.Program
	fnByKey   map[string]*ssa.Function
	db        *ContractDB
	fids      fieldIDs
	tags      typeTags
	qn        int
	specDepth int
	specUsed  map[string]bool
	repo      string
	known     map[string]KnownFinding
	// locals of every function under contract on the pinned tree (baseline/locals.json)
	baseLocals map[string][]LocalVar
}

func (tt *typeTags) tagName(name string) int {
	if tt.ids == nil {
		tt.ids = map[string]int{}
	}
	k := "name:" + name
	if id, ok := tt.ids[k]; ok {
		return id
	}
	id := len(tt.ids) + 1
	tt.ids[k] = id
	return id
}

// Load type-checks /repo's working tree (with -tags verif), builds SSA for
// the first-party packages and reads the contract files.
func Load(repo string, overlay map[string][]byte) (*Engine, error) {
	e := &Engine{repo: repo, pkgByPath: map[string]*packages.Package{}, fnByKey: map[string]*ssa.Function{}, db: NewContractDB()}
	e.fset = token.NewFileSet()
	cfg := &packages.Config{
		Mode:       packages.LoadAllSyntax,
		Dir:        repo,
		Fset:       e.fset,
		BuildFlags: []string{"-tags=verif"},
		Overlay:    overlay,
		Env:        append(os.Environ(), "GOFLAGS=-mod=mod", "GOPROXY=off", "GOSUMDB=off", "GOTOOLCHAIN=local"),
	}
	pkgs, err := packages.Load(cfg, "./pkg/...", "./cmd/...")
	if err != nil {
		return nil, err
	}
	var errs []string
	packages.Visit(pkgs, nil, func(p *packages.Package) {
		e.pkgByPath[p.PkgPath] = p
		if e.firstParty(p.PkgPath) {
			for _, er := range p.Errors {
				errs = append(errs, er.Error())
			}
		}
	})
	if len(errs) > 0 {
		return nil, fmt.Errorf("type errors in /repo: %s", strings.Join(errs, "; "))
	}
	e.pkgs = pkgs
	prog, _ := ssautil.AllPackages(pkgs, ssa.InstantiateGenerics|ssa.GlobalDebug)
	e.prog = prog
	for _, p := range pkgs {
		if sp := prog.Package(p.Types); sp != nil {
			sp.Build()
		}
	}
	for _, p := range pkgs {
		sp := prog.Package(p.Types)
		if sp == nil {
			continue
		}
		var add func(fn *ssa.Function)
		add = func(fn *ssa.Function) {
			e.fnByKey[e.funcKey(fn)] = fn
			for _, af := range fn.AnonFuncs {
				add(af)
			}
		}
		for _, m := range sp.Members {
			switch x := m.(type) {
			case *ssa.Function:
				add(x)
			case *ssa.Type:
				for _, t := range []types.Type{x.Type(), types.NewPointer(x.Type())} {
					ms := prog.MethodSets.MethodSet(t)
					for i := 0; i < ms.Len(); i++ {
						if fn := prog.MethodValue(ms.At(i)); fn != nil && fn.Pkg == sp && fn.Synthetic == "" {
							add(fn)
						}
					}
				}
			}
		}
	}
	// contracts
	for _, p := range pkgs {
		for i, f := range p.Syntax {
			name := p.CompiledGoFiles[i]
			if filepath.Base(name) != "verif_contracts.go" && !strings.HasPrefix(filepath.Base(name), "verif_contracts_") {
				continue
			}
			if err := checkCommentOnly(f); err != nil {
				return nil, fmt.Errorf("%s: %v", name, err)
			}
			if err := e.db.ParseContractFile(e.fset, f, p.PkgPath, p.Name); err != nil {
				return nil, err
			}
		}
	}
	return e, nil
}

// checkCommentOnly: a contract file must add no code.
func checkCommentOnly(f *ast.File) error {
	for _, d := range f.Decls {
		if g, ok := d.(*ast.GenDecl); ok && g.Tok == token.IMPORT {
			return fmt.Errorf("contract file contains an import")
		}
		return fmt.Errorf("contract file contains a declaration")
	}
	return nil
}

// resolveType maps a spec type string to a Go type (if any) and an SMT sort.
func (e *Engine) resolveType(pkgPath, s string) (types.Type, Sort) {
	s = strings.TrimSpace(s)
	switch s {
	case "", "int", "int64":
		return nil, SInt
	case "bool":
		return nil, SBool
	case "real", "float64":
		return nil, SReal
	case "string":
		return nil, SStr
	case "ref":
		return nil, SRef
	case "iface", "error":
		return nil, SIface
	case "qty":
		return nil, SQty
	case "fn":
		return nil, SFn
	case "time", "duration":
		return nil, SInt
	}
	if strings.HasPrefix(s, "[") && !strings.HasPrefix(s, "[]") {
		end := matchBracket(s, 0)
		_, ks := e.resolveType(pkgPath, s[1:end])
		_, vs := e.resolveType(pkgPath, s[end+1:])
		return nil, ArrSort(ks, vs)
	}
	gt := e.goType(pkgPath, s)
	if gt == nil {
		sfail("unknown type %q in specification (package %s)", s, pkgPath)
	}
	if kindOf(gt) == KScalar {
		return gt, sortOf(gt)
	}
	return gt, ""
}

func matchBracket(s string, open int) int {
	depth := 0
	for i := open; i < len(s); i++ {
		switch s[i] {
		case '[':
			depth++
		case ']':
			depth--
			if depth == 0 {
				return i
			}
		}
	}
	return -1
}

func (e *Engine) goType(pkgPath, s string) types.Type {
	if strings.HasPrefix(s, "*") {
		if t := e.goType(pkgPath, s[1:]); t != nil {
			return types.NewPointer(t)
		}
		return nil
	}
	if strings.HasPrefix(s, "[]") {
		if t := e.goType(pkgPath, s[2:]); t != nil {
			return types.NewSlice(t)
		}
		return nil
	}
	if strings.HasPrefix(s, "map[") {
		end := matchBracket(s, 3)
		k := e.goType(pkgPath, s[4:end])
		v := e.goType(pkgPath, s[end+1:])
		if k != nil && v != nil {
			return types.NewMap(k, v)
		}
		return nil
	}
	if b := types.Universe.Lookup(s); b != nil {
		if tn, ok := b.(*types.TypeName); ok {
			return tn.Type()
		}
	}
	path, name := pkgPath, s
	if i := strings.LastIndex(s, "."); i >= 0 {
		alias := s[:i]
		name = s[i+1:]
		if p, ok := e.db.Imports[pkgPath][alias]; ok {
			path = p
		} else if strings.Contains(alias, "/") {
			path = alias
		} else {
			// first-party package by name
			for pp, p := range e.pkgByPath {
				if p.Name == alias && e.firstParty(pp) {
					path = pp
				}
			}
		}
	}
	p := e.pkgByPath[path]
	if p == nil || p.Types == nil {
		return nil
	}
	obj := p.Types.Scope().Lookup(name)
	if tn, ok := obj.(*types.TypeName); ok {
		return tn.Type()
	}
	return nil
}

// ------------------------------------------------------------ verification

type FuncResult struct {
	Key       string
	Obls      []*Obligation
	Covers    []*Obligation
	Notes     []string
	Trusted   []string
	Callees   []string
	Inlined   []string
	Err       string // outside-subset / spec error
	ErrKind   string // "unsupported" | "spec" | "missing"
	LoopCount int
}

func (v *FnVerifier) reset() {
	v.ctx = NewCtx()
	v.obls = nil
	v.safe = map[string][]Term{}
	v.safeAt = map[string][]string{}
	v.arrSort = map[string]Sort{}
	v.declared = map[string]bool{}
	v.siteN = map[string]int{}
	v.loopsFound = map[int]bool{}
	v.pending = nil
	v.ceils = nil
	v.opqDeps, v.opqDone, v.rec, v.opqBusy = nil, nil, nil, nil
	v.siteSeen, v.assertSites = nil, map[int]bool{}
	v.localRefs = nil
	v.now0 = v.ctx.Const("now!0", SInt)
	v.entry = &State{arr: map[string]Term{}, now: v.now0}
}

// VerifyFunc generates the obligations of one function under contract.
func (e *Engine) VerifyFunc(key, prop string) (res *FuncResult) {
	res = &FuncResult{Key: key}
	fc := e.db.Funcs[key]
	fn := e.fnByKey[key]
	if fc == nil || fn == nil {
		res.Err = fmt.Sprintf("contract key %s does not resolve to a function in the working tree", key)
		res.ErrKind = "missing"
		return
	}
	v := &FnVerifier{eng: e, prop: prop, root: fn, fc: fc, trusted: map[string]bool{}, callees: map[string]bool{}, inlined: map[string]bool{},
		loopMods: map[string][]string{}, loopSeen: map[string]*loopInfo{}}
	defer func() {
		if r := recover(); r != nil {
			switch x := r.(type) {
			case unsupported:
				res.Err, res.ErrKind = x.msg, "unsupported"
			case specErr:
				res.Err, res.ErrKind = x.msg, "spec"
			default:
				panic(r)
			}
			res.Obls = nil
		}
		res.Notes = v.notes
		res.Trusted = keysOf(v.trusted)
		res.Callees = keysOf(v.callees)
		res.Inlined = keysOf(v.inlined)
	}()
	if len(fc.Params) != len(fn.Params) {
		sfail("contract %s names %d parameters, the function has %d (receiver included)", key, len(fc.Params), len(fn.Params))
	}
	if hasLoop(fn) {
		// pass 1 (dry): which arrays does each loop touch?  Iterate to a fixpoint for nested loops.
		for iter := 0; iter < 4; iter++ {
			before := fmt.Sprint(v.loopMods)
			v.reset()
			v.dry = true
			v.runRoot(fn, fc)
			if fmt.Sprint(v.loopMods) == before {
				break
			}
		}
		for k := range v.loopMods {
			sort.Strings(v.loopMods[k])
		}
		v.notes = nil
	}
	v.dry = false
	keepSorts := v.arrSort
	v.reset()
	for k, s := range keepSorts {
		v.arrSort[k] = s
	}
	v.runRoot(fn, fc)
	for ord := range fc.Loops {
		if !v.loopsFound[ord] {
			v.note("contract %s has a loop #%d that does not exist in the function (ignored)", key, ord)
		}
	}
	for _, cl := range fc.Of("assert") {
		if cl.HasTag(prop) && !v.assertSites[cl.Ord] {
			// the call site the assertion is attached to no longer exists: the clause cannot be checked
			v.oblige("post", fmt.Sprintf("%s/assert#%d@%s", fc.Key, cl.Ord, cl.Site), cl.Tags, TTrue, TFalse, fmt.Sprintf("%s:%d", strings.TrimPrefix(cl.File, "/repo/"), cl.Line), "call site "+cl.Site+" not found: "+cl.Src)
		}
	}
	res.Obls = v.obls
	res.Covers = v.covers
	res.LoopCount = len(v.loopsFound)
	return
}

func keysOf(m map[string]bool) []string {
	var out []string
	for k := range m {
		out = append(out, k)
	}
	sort.Strings(out)
	return out
}

func (v *FnVerifier) runRoot(fn *ssa.Function, fc *FuncContract) {
	f := &frame{v: v, fn: fn, env: map[ssa.Value]Val{}, isRoot: true, oldVars: map[string]TV{}}
	// parameters
	v.rootVars = map[string]TV{}
	for i, p := range fn.Params {
		name := fc.Params[i]
		val := v.freshVal(name, p.Type(), v.entry)
		f.params = append(f.params, val)
		if name != "_" {
			v.rootVars[name] = TV{val, p.Type()}
			f.oldVars[name] = TV{val, p.Type()}
		}
	}
	for i, fv := range fn.FreeVars {
		// closures verified on their own: free variables are unconstrained cells
		f.env[fv] = v.freshVal(fmt.Sprintf("free.%s.%d", fv.Name(), i), fv.Type(), v.entry)
		// in contracts the captured variable's name denotes its value at entry (go/ssa captures by reference)
		if pt, ok := fv.Type().Underlying().(*types.Pointer); ok {
			if ref, isRef := f.env[fv].(Term); isRef {
				v.ctx.Assert(Not(Eq(ref, TNull)))
				val := v.loadCell(v.entry, ref, pt.Elem(), false)
				v.rootVars[fv.Name()] = TV{val, pt.Elem()}
				f.oldVars[fv.Name()] = TV{val, pt.Elem()}
				v.rootVars[fv.Name()+"$ref"] = TV{ref, fv.Type()}
				f.oldVars[fv.Name()+"$ref"] = TV{ref, fv.Type()}
				continue
			}
		}
		v.rootVars[fv.Name()] = TV{f.env[fv], fv.Type()}
		f.oldVars[fv.Name()] = TV{f.env[fv], fv.Type()}
	}
	entryEnv := v.entryEnv()
	// global axioms
	for _, ax := range v.eng.db.Axioms {
		if ax.HasTag(v.prop) {
			axEnv := &TEnv{v: v, st: v.entry, vars: map[string]TV{}, bound: map[string]TV{}, pkg: fc.Pkg, nowOld: v.now0}
			v.ctx.Assert(v.trClause(axEnv, ax))
		}
	}
	// requires
	reach := TTrue
	for _, cl := range fc.Of("requires") {
		if !cl.HasTag(v.prop) {
			continue
		}
		v.ctx.Assert(v.trClause(entryEnv, cl))
	}
	if !v.dry {
		c := v.oblige("cover", fc.Key+"/cover#entry", nil, TTrue, TFalse, v.pos(fn.Pos()), "requires is satisfiable")
		c.ExpectSat = true
		v.obls = v.obls[:len(v.obls)-1]
		v.covers = append(v.covers, c)
	}
	f.run(v.entry, reach)
	if v.dry {
		return
	}
	v.flushPending()
	// ---- ghost assignments made at return (`sets G = expr`)
	for i := range f.exits {
		for _, cl := range fc.Of("sets") {
			env := v.exitEnv(fc, fn, f.exits[i])
			g, ok := v.ghost(f.exits[i].state, cl.Site)
			if !ok {
				panic(specErr{"sets: " + cl.Site + " is not a ghost"})
			}
			val := v.ctx.Define("G:"+cl.Site, v.coerce(env.term(cl.E), g.Sort))
			f.exits[i].state = f.exits[i].state.with("G:"+cl.Site, val)
		}
	}
	// ---- ensures at every return
	var exitReach []Term
	for _, ex := range f.exits {
		exitReach = append(exitReach, ex.reach)
	}
	for _, cl := range fc.Of("ensures") {
		if !cl.HasTag(v.prop) {
			continue
		}
		tag := ""
		if len(cl.Tags) > 0 {
			tag = "[" + strings.Join(cl.Tags, ",") + "]"
		}
		// one obligation per return statement (conjunctions over many exits are much harder to solve)
		for ri, ex := range f.exits {
			env := v.exitEnv(fc, fn, ex)
			name := fmt.Sprintf("%s/post#%d%s", fc.Key, cl.Ord, tag)
			if len(f.exits) > 1 {
				name += fmt.Sprintf("@r%d", ri)
			}
			v.oblEnv = env
			base := fmt.Sprintf("%s/post#%d%s", fc.Key, cl.Ord, tag)
			if k, ok := v.eng.known[base]; ok {
				v.eng.known[name] = k
			}
			v.oblige("post", name, cl.Tags, ex.reach, v.trClause(env, cl), fmt.Sprintf("%s:%d (return at %s)", strings.TrimPrefix(cl.File, "/repo/"), cl.Line, v.pos(ex.pos)), cl.Src)
			v.oblEnv = nil
		}
	}
	// ---- frame: one obligation per heap array that changed
	perArr := map[string][]Term{}
	var arrOrder []string
	for _, ex := range f.exits {
		for name, g := range v.frameGoals(entryEnv, ex.state) {
			if _, ok := perArr[name]; !ok {
				arrOrder = append(arrOrder, name)
			}
			perArr[name] = append(perArr[name], Implies(ex.reach, g))
		}
	}
	sort.Strings(arrOrder)
	for _, name := range arrOrder {
		v.oblige("frame", fc.Key+"/frame:"+name, nil, TTrue, And(perArr[name]...), v.pos(fn.Pos()), "writes to "+name+" stay inside the modifies clause")
	}
	// ---- onlywrites: a syntactic frame over whole array families (covers fresh objects too)
	for _, cl := range fc.Of("onlywrites") {
		if !cl.HasTag(v.prop) {
			continue
		}
		fam, err1 := regexp.Compile(cl.Family)
		alw, err2 := regexp.Compile(cl.Allowed)
		if err1 != nil || err2 != nil {
			sfail("%s:%d: bad regular expression in onlywrites", cl.File, cl.Line)
		}
		var bad []string
		for _, ex := range f.exits {
			for _, k := range ex.state.keys() {
				if !fam.MatchString(k) || alw.MatchString(k) {
					continue
				}
				if ex.state.arr[k].S != v.entryArr(k, v.arrSort[k]).S {
					bad = append(bad, k)
				}
			}
		}
		goal := TTrue
		src := cl.Src
		if len(bad) > 0 {
			goal = TFalse
			src += "  -- written: " + strings.Join(dedup(bad), ", ")
		}
		tag := ""
		if len(cl.Tags) > 0 {
			tag = "[" + strings.Join(cl.Tags, ",") + "]"
		}
		v.oblige("frame", fmt.Sprintf("%s/onlywrites#%d%s", fc.Key, cl.Ord, tag), cl.Tags, TTrue, goal, fmt.Sprintf("%s:%d", strings.TrimPrefix(cl.File, "/repo/"), cl.Line), src)
	}
	// ---- safety, one obligation per class
	classes := keysOfTerms(v.safe)
	for _, cls := range classes {
		o := v.oblige("safe", fc.Key+"/safe/"+cls, []string{"C20"}, TTrue, And(v.safe[cls]...), strings.Join(dedup(v.safeAt[cls]), ","), "no "+cls+" failure at any site")
		_ = o
	}
	c := v.oblige("cover", fc.Key+"/cover#exit", nil, Or(exitReach...), TFalse, v.pos(fn.Pos()), "some return is reachable under all assumptions")
	c.ExpectSat = true
	v.obls = v.obls[:len(v.obls)-1]
	v.covers = append(v.covers, c)
}

func dedup(in []string) []string {
	seen := map[string]bool{}
	var out []string
	for _, s := range in {
		if !seen[s] && s != "" {
			seen[s] = true
			out = append(out, s)
		}
	}
	return out
}

func keysOfTerms(m map[string][]Term) []string {
	var out []string
	for k := range m {
		out = append(out, k)
	}
	sort.Strings(out)
	return out
}

func (v *FnVerifier) exitEnv(fc *FuncContract, fn *ssa.Function, ex exit) *TEnv {
	env := &TEnv{v: v, st: ex.state, vars: map[string]TV{}, bound: map[string]TV{}, pkg: fc.Pkg, nowOld: v.now0}
	for k, tv := range v.rootVars {
		env.vars[k] = tv
	}
	env.old = v.entryEnv()
	res := fn.Signature.Results()
	for i, name := range fc.Results {
		if i < len(ex.results) && name != "_" {
			env.vars[name] = TV{ex.results[i], res.At(i).Type()}
		}
	}
	return env
}
