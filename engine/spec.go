package main

import (
	"fmt"
	"go/ast"
	"go/token"
	"strconv"
	"strings"
)

// ---------------------------------------------------------------- AST

type Expr interface{ String() string }

type (
	EIdent struct{ Name string }
	EInt   struct{ V int64 }
	EBig   struct{ V string }
	EReal  struct{ V string }
	EStr   struct{ V string }
	EBool  struct{ V bool }
	EUn    struct {
		Op string
		X  Expr
	}
	EBin struct {
		Op   string
		X, Y Expr
	}
	ESel struct {
		X Expr
		F string
	}
	EIdx  struct{ X, I Expr }
	EUpd  struct{ X, I, V Expr } // a[i := v]
	ESlc  struct{ X, Lo, Hi Expr }
	ECall struct {
		F    string
		Args []Expr
	}
	EOld   struct{ X Expr }
	EQuant struct {
		All  bool
		Vars []QVar
		Trig []Expr
		Body Expr
	}
	EIte struct{ C, A, B Expr }
)

type QVar struct {
	Name string
	Type string // spec type text; "" = int
}

func (e EIdent) String() string { return e.Name }
func (e EInt) String() string   { return fmt.Sprint(e.V) }
func (e EBig) String() string   { return e.V }
func (e EReal) String() string  { return e.V }
func (e EStr) String() string   { return strconv.Quote(e.V) }
func (e EBool) String() string  { return fmt.Sprint(e.V) }
func (e EUn) String() string    { return e.Op + e.X.String() }
func (e EBin) String() string   { return "(" + e.X.String() + " " + e.Op + " " + e.Y.String() + ")" }
func (e ESel) String() string   { return e.X.String() + "." + e.F }
func (e EIdx) String() string   { return e.X.String() + "[" + e.I.String() + "]" }
func (e EUpd) String() string {
	return e.X.String() + "[" + e.I.String() + " := " + e.V.String() + "]"
}
func (e ESlc) String() string {
	lo, hi := "", ""
	if e.Lo != nil {
		lo = e.Lo.String()
	}
	if e.Hi != nil {
		hi = e.Hi.String()
	}
	return e.X.String() + "[" + lo + ":" + hi + "]"
}
func (e ECall) String() string {
	as := make([]string, len(e.Args))
	for i, a := range e.Args {
		as[i] = a.String()
	}
	return e.F + "(" + strings.Join(as, ", ") + ")"
}
func (e EOld) String() string { return "old(" + e.X.String() + ")" }
func (e EQuant) String() string {
	q := "exists"
	if e.All {
		q = "forall"
	}
	vs := make([]string, len(e.Vars))
	for i, v := range e.Vars {
		vs[i] = v.Name
		if v.Type != "" {
			vs[i] += " " + v.Type
		}
	}
	return "(" + q + " " + strings.Join(vs, ", ") + " :: " + e.Body.String() + ")"
}
func (e EIte) String() string {
	return "ite(" + e.C.String() + ", " + e.A.String() + ", " + e.B.String() + ")"
}

// ---------------------------------------------------------------- lexer

type tok struct {
	kind string // id num real str op eof
	s    string
}

func lex(src string) ([]tok, error) {
	var out []tok
	i := 0
	for i < len(src) {
		ch := src[i]
		switch {
		case ch == ' ' || ch == '\t' || ch == '\n':
			i++
		case ch >= '0' && ch <= '9':
			j := i
			isReal := false
			for j < len(src) && (src[j] >= '0' && src[j] <= '9' || src[j] == '_' || (src[j] == '.' && j+1 < len(src) && src[j+1] >= '0' && src[j+1] <= '9')) {
				if src[j] == '.' {
					isReal = true
				}
				j++
			}
			k := "num"
			if isReal {
				k = "real"
			}
			out = append(out, tok{k, strings.ReplaceAll(src[i:j], "_", "")})
			i = j
		case ch == '_' || ch >= 'a' && ch <= 'z' || ch >= 'A' && ch <= 'Z':
			j := i
			for j < len(src) && (src[j] == '_' || src[j] == '$' || src[j] >= 'a' && src[j] <= 'z' || src[j] >= 'A' && src[j] <= 'Z' || src[j] >= '0' && src[j] <= '9') {
				j++
			}
			out = append(out, tok{"id", src[i:j]})
			i = j
		case ch == '"':
			j := i + 1
			for j < len(src) && src[j] != '"' {
				if src[j] == '\\' {
					j++
				}
				j++
			}
			if j >= len(src) {
				return nil, fmt.Errorf("unterminated string")
			}
			s, err := strconv.Unquote(src[i : j+1])
			if err != nil {
				return nil, err
			}
			out = append(out, tok{"str", s})
			i = j + 1
		default:
			ops := []string{"<==>", "==>", "::", ":=", "==", "!=", "<=", ">=", "&&", "||", "..",
				"+", "-", "*", "/", "%", "<", ">", "!", "(", ")", "[", "]", "{", "}", ",", ".", ":", "?", "#"}
			matched := false
			for _, op := range ops {
				if strings.HasPrefix(src[i:], op) {
					out = append(out, tok{"op", op})
					i += len(op)
					matched = true
					break
				}
			}
			if !matched {
				return nil, fmt.Errorf("unexpected character %q in %q", ch, src)
			}
		}
	}
	out = append(out, tok{"eof", ""})
	return out, nil
}

// ---------------------------------------------------------------- parser

type parser struct {
	toks []tok
	pos  int
}

func (p *parser) peek() tok { return p.toks[p.pos] }
func (p *parser) next() tok { t := p.toks[p.pos]; p.pos++; return t }
func (p *parser) isOp(s string) bool {
	t := p.peek()
	return t.kind == "op" && t.s == s
}
func (p *parser) isID(s string) bool {
	t := p.peek()
	return t.kind == "id" && t.s == s
}
func (p *parser) expectOp(s string) {
	if !p.isOp(s) {
		panic(fmt.Sprintf("expected %q, got %q", s, p.peek().s))
	}
	p.pos++
}

func ParseExpr(src string) (e Expr, err error) {
	toks, err := lex(src)
	if err != nil {
		return nil, err
	}
	p := &parser{toks: toks}
	defer func() {
		if r := recover(); r != nil {
			err = fmt.Errorf("parse error in %q: %v", src, r)
		}
	}()
	e = p.parseExpr()
	if p.peek().kind != "eof" {
		panic(fmt.Sprintf("trailing input at %q", p.peek().s))
	}
	return e, nil
}

func (p *parser) parseExpr() Expr {
	if p.isID("forall") || p.isID("exists") {
		all := p.next().s == "forall"
		var vars []QVar
		for {
			name := p.next()
			if name.kind != "id" {
				panic("expected bound variable")
			}
			v := QVar{Name: name.s}
			// optional type: anything up to ',' or '::' or '{'
			var ty []string
			for !p.isOp(",") && !p.isOp("::") && !p.isOp("{") {
				ty = append(ty, p.next().s)
			}
			v.Type = strings.Join(ty, "")
			vars = append(vars, v)
			if p.isOp(",") {
				p.next()
				continue
			}
			break
		}
		var trig []Expr
		if p.isOp("{") {
			p.next()
			for {
				trig = append(trig, p.parseExpr())
				if p.isOp(",") {
					p.next()
					continue
				}
				break
			}
			p.expectOp("}")
		}
		p.expectOp("::")
		body := p.parseExpr()
		return EQuant{All: all, Vars: vars, Trig: trig, Body: body}
	}
	return p.parseIff()
}

func (p *parser) parseIff() Expr {
	x := p.parseImp()
	for p.isOp("<==>") {
		p.next()
		y := p.parseImp()
		x = EBin{"<==>", x, y}
	}
	return x
}
func (p *parser) parseImp() Expr {
	x := p.parseOr()
	if p.isOp("==>") {
		p.next()
		var y Expr
		if p.isID("forall") || p.isID("exists") {
			y = p.parseExpr()
		} else {
			y = p.parseImp()
		}
		return EBin{"==>", x, y}
	}
	if p.isOp("?") {
		p.next()
		a := p.parseImp()
		p.expectOp(":")
		b := p.parseImp()
		return EIte{x, a, b}
	}
	return x
}
func (p *parser) parseOr() Expr {
	x := p.parseAnd()
	for p.isOp("||") {
		p.next()
		x = EBin{"||", x, p.parseAnd()}
	}
	return x
}
func (p *parser) parseAnd() Expr {
	x := p.parseCmp()
	for p.isOp("&&") {
		p.next()
		if p.isID("forall") || p.isID("exists") {
			x = EBin{"&&", x, p.parseExpr()}
			break
		}
		x = EBin{"&&", x, p.parseCmp()}
	}
	return x
}
func (p *parser) parseCmp() Expr {
	x := p.parseAdd()
	for {
		t := p.peek()
		if t.kind == "op" && (t.s == "==" || t.s == "!=" || t.s == "<" || t.s == "<=" || t.s == ">" || t.s == ">=") {
			p.next()
			y := p.parseAdd()
			// chained comparisons a <= b < c
			cmp := EBin{t.s, x, y}
			n := p.peek()
			if n.kind == "op" && (n.s == "<" || n.s == "<=" || n.s == ">" || n.s == ">=") {
				p.next()
				z := p.parseAdd()
				return EBin{"&&", cmp, EBin{n.s, y, z}}
			}
			return cmp
		}
		return x
	}
}
func (p *parser) parseAdd() Expr {
	x := p.parseMul()
	for p.isOp("+") || p.isOp("-") {
		op := p.next().s
		x = EBin{op, x, p.parseMul()}
	}
	return x
}
func (p *parser) parseMul() Expr {
	x := p.parseUnary()
	for p.isOp("*") || p.isOp("/") || p.isOp("%") {
		op := p.next().s
		x = EBin{op, x, p.parseUnary()}
	}
	return x
}
func (p *parser) parseUnary() Expr {
	if p.isOp("!") {
		p.next()
		return EUn{"!", p.parseUnary()}
	}
	if p.isOp("-") {
		p.next()
		return EUn{"-", p.parseUnary()}
	}
	return p.parsePostfix()
}
func (p *parser) parsePostfix() Expr {
	x := p.parsePrimary()
	for {
		switch {
		case p.isOp("."):
			p.next()
			f := p.next()
			if f.kind != "id" {
				panic("expected field name after '.'")
			}
			// qualified call pkg.Func(...) or qualified const
			if p.isOp("(") {
				if id, ok := x.(EIdent); ok {
					p.next()
					args := p.parseArgs()
					x = ECall{F: id.Name + "." + f.s, Args: args}
					continue
				}
			}
			x = ESel{x, f.s}
		case p.isOp("["):
			p.next()
			if p.isOp(":") {
				p.next()
				hi := p.parseExpr()
				p.expectOp("]")
				x = ESlc{x, nil, hi}
				continue
			}
			i := p.parseExpr()
			if p.isOp(":=") {
				p.next()
				v := p.parseExpr()
				p.expectOp("]")
				x = EUpd{x, i, v}
			} else if p.isOp(":") {
				p.next()
				var hi Expr
				if !p.isOp("]") {
					hi = p.parseExpr()
				}
				p.expectOp("]")
				x = ESlc{x, i, hi}
			} else {
				p.expectOp("]")
				x = EIdx{x, i}
			}
		default:
			return x
		}
	}
}
func (p *parser) parseArgs() []Expr {
	var args []Expr
	if p.isOp(")") {
		p.next()
		return args
	}
	for {
		args = append(args, p.parseExpr())
		if p.isOp(",") {
			p.next()
			continue
		}
		p.expectOp(")")
		return args
	}
}
func (p *parser) parsePrimary() Expr {
	t := p.next()
	switch t.kind {
	case "num":
		v, err := strconv.ParseInt(t.s, 10, 64)
		if err != nil {
			return EBig{t.s}
		}
		return EInt{v}
	case "real":
		return EReal{t.s}
	case "str":
		return EStr{t.s}
	case "id":
		switch t.s {
		case "true":
			return EBool{true}
		case "false":
			return EBool{false}
		case "old":
			p.expectOp("(")
			e := p.parseExpr()
			p.expectOp(")")
			return EOld{e}
		case "ite":
			p.expectOp("(")
			c := p.parseExpr()
			p.expectOp(",")
			a := p.parseExpr()
			p.expectOp(",")
			b := p.parseExpr()
			p.expectOp(")")
			return EIte{c, a, b}
		}
		if p.isOp("(") {
			p.next()
			return ECall{F: t.s, Args: p.parseArgs()}
		}
		return EIdent{t.s}
	case "op":
		if t.s == "(" {
			e := p.parseExpr()
			p.expectOp(")")
			return e
		}
		if t.s == "#" { // #name : engine-provided loop symbols, e.g. #i
			n := p.next()
			return EIdent{"#" + n.s}
		}
	}
	panic(fmt.Sprintf("unexpected token %q", t.s))
}

// ---------------------------------------------------------------- contracts

type Clause struct {
	Kind            string   // requires ensures invariant modifies decreases
	Tags            []string // property ids; empty = carrier for all
	Src             string
	E               Expr   // nil for modifies
	Mods            []Expr // for modifies
	Line            int
	File            string
	Ord             int    // ordinal within its kind inside the contract
	Family, Allowed string // onlywrites
	Site            string // assert: Callee#n
}

func (c *Clause) HasTag(p string) bool {
	if len(c.Tags) == 0 || p == "" {
		return true
	}
	for _, t := range c.Tags {
		if t == p || alsoTags[t] {
			return true
		}
	}
	return false
}

// alsoTags (debugging only, GOVC_ALSO=C01,C02): treat these tags as included too.
var alsoTags = map[string]bool{}

type LoopSpec struct {
	Ord     int
	Clauses []*Clause
}

type FuncContract struct {
	Key      string // e.g. "controller.(*Controller).ScaleUp" or "time.Since"
	Pkg      string // package path the contract file lives in
	Assume   bool   // trusted, never verified
	Iface    bool   // contract on an interface method
	Inline   bool   // directive: always inline (no contract)
	Pure     bool   // does not modify anything
	Params   []string
	Results  []string
	Clauses  []*Clause
	Loops    map[int]*LoopSpec
	File     string
	Line     int
	NoReturn bool
	FnParams map[string]string
}

func (fc *FuncContract) Of(kind string) []*Clause {
	var out []*Clause
	for _, c := range fc.Clauses {
		if c.Kind == kind {
			out = append(out, c)
		}
	}
	return out
}

type SpecFunc struct {
	Name   string
	Params []QVar
	Ret    string
	Body   Expr // nil = uninterpreted
	Pkg    string
	Opaque bool
}

type GhostVar struct {
	Name string
	Type string
}

type ContractDB struct {
	Funcs      map[string]*FuncContract
	Specs      map[string]*SpecFunc
	Ghosts     map[string]*GhostVar
	GhostOrder []string
	Axioms     []*Clause
	Imports    map[string]map[string]string // pkg path -> alias -> import path
	Consts     map[string]Expr              // spec-level named constants
	Files      []string
	Lemmas     []*Lemma
}

type Lemma struct {
	Name  string
	Tags  []string
	Vars  []QVar
	Hyps  []Expr
	Concl []Expr
	File  string
	Line  int
	Pkg   string
}

func NewContractDB() *ContractDB {
	return &ContractDB{Funcs: map[string]*FuncContract{}, Specs: map[string]*SpecFunc{}, Ghosts: map[string]*GhostVar{},
		Imports: map[string]map[string]string{}, Consts: map[string]Expr{}}
}

// parseTags strips leading [C01,C02] from a clause body.
func parseTags(s string) ([]string, string) {
	s = strings.TrimSpace(s)
	if strings.HasPrefix(s, "[") {
		end := strings.Index(s, "]")
		if end > 0 {
			inner := s[1:end]
			ok := true
			var tags []string
			for _, t := range strings.Split(inner, ",") {
				t = strings.TrimSpace(t)
				if len(t) < 3 || t[0] != 'C' {
					ok = false
					break
				}
				tags = append(tags, t)
			}
			if ok {
				return tags, strings.TrimSpace(s[end+1:])
			}
		}
	}
	return nil, s
}

// splitTop splits on sep at bracket depth 0.
func splitTop(s string, sep byte) []string {
	var out []string
	depth := 0
	last := 0
	inStr := false
	for i := 0; i < len(s); i++ {
		ch := s[i]
		if inStr {
			if ch == '\\' {
				i++
			} else if ch == '"' {
				inStr = false
			}
			continue
		}
		switch ch {
		case '"':
			inStr = true
		case '(', '[', '{':
			depth++
		case ')', ']', '}':
			depth--
		default:
			if ch == sep && depth == 0 {
				out = append(out, strings.TrimSpace(s[last:i]))
				last = i + 1
			}
		}
	}
	out = append(out, strings.TrimSpace(s[last:]))
	return out
}

func parseNameList(s string) []string {
	s = strings.TrimSpace(s)
	if s == "" {
		return nil
	}
	var out []string
	for _, p := range strings.Split(s, ",") {
		out = append(out, strings.TrimSpace(p))
	}
	return out
}

func parseTypedList(s string) []QVar {
	s = strings.TrimSpace(s)
	if s == "" {
		return nil
	}
	var out []QVar
	for _, p := range splitTop(s, ',') {
		fs := strings.Fields(p)
		v := QVar{Name: fs[0]}
		if len(fs) > 1 {
			v.Type = strings.Join(fs[1:], "")
		}
		out = append(out, v)
	}
	return out
}

// ParseContractFile reads the //@ lines of one comment-only Go file.
func (db *ContractDB) ParseContractFile(fset *token.FileSet, f *ast.File, pkgPath, pkgName string) error {
	filename := fset.Position(f.Pos()).Filename
	db.Files = append(db.Files, filename)
	if db.Imports[pkgPath] == nil {
		db.Imports[pkgPath] = map[string]string{}
	}
	type line struct {
		text string
		no   int
	}
	var lines []line
	for _, cg := range f.Comments {
		for _, c := range cg.List {
			t := c.Text
			if !strings.HasPrefix(t, "//@") {
				continue
			}
			t = strings.TrimRight(t[3:], " \t")
			ln := fset.Position(c.Pos()).Line
			// continuation: "//@ ..." lines starting with "\" or deeper indent handled by "+" prefix
			if strings.HasPrefix(strings.TrimSpace(t), "| ") || strings.TrimSpace(t) == "|" {
				if len(lines) == 0 {
					return fmt.Errorf("%s:%d: continuation without a previous line", filename, ln)
				}
				lines[len(lines)-1].text += " " + strings.TrimSpace(strings.TrimPrefix(strings.TrimSpace(t), "|"))
				continue
			}
			lines = append(lines, line{t, ln})
		}
	}
	var cur *FuncContract
	var curLoop *LoopSpec
	var curLemma *Lemma
	counts := map[string]int{}
	fail := func(ln int, format string, args ...interface{}) error {
		return fmt.Errorf("%s:%d: %s", filename, ln, fmt.Sprintf(format, args...))
	}
	for _, l := range lines {
		t := strings.TrimSpace(l.text)
		if t == "" || strings.HasPrefix(t, "--") {
			continue
		}
		word := t
		rest := ""
		if i := strings.IndexAny(t, " \t"); i > 0 {
			word, rest = t[:i], strings.TrimSpace(t[i+1:])
		}
		switch word {
		case "import":
			fs := strings.Fields(rest)
			if len(fs) != 2 {
				return fail(l.no, "import wants: alias \"path\"")
			}
			path, _ := strconv.Unquote(fs[1])
			db.Imports[pkgPath][fs[0]] = path
			cur, curLoop, curLemma = nil, nil, nil
		case "ghost":
			fs := strings.Fields(rest)
			if len(fs) < 2 {
				return fail(l.no, "ghost wants: name type")
			}
			if _, dup := db.Ghosts[fs[0]]; !dup {
				db.Ghosts[fs[0]] = &GhostVar{Name: fs[0], Type: strings.Join(fs[1:], "")}
				db.GhostOrder = append(db.GhostOrder, fs[0])
			}
			cur, curLoop, curLemma = nil, nil, nil
		case "const":
			i := strings.Index(rest, "=")
			if i < 0 {
				return fail(l.no, "const wants: name = expr")
			}
			e, err := ParseExpr(rest[i+1:])
			if err != nil {
				return fail(l.no, "%v", err)
			}
			db.Consts[strings.TrimSpace(rest[:i])] = e
			cur, curLoop, curLemma = nil, nil, nil
		case "opaque":
			// opaque spec f(...) T = body : translated as an uninterpreted predicate with a triggered definition
			rest = strings.TrimSpace(strings.TrimPrefix(rest, "spec"))
			op := strings.Index(rest, "(")
			cp := matchParen(rest, op)
			if op < 0 || cp < 0 {
				return fail(l.no, "bad opaque spec header")
			}
			sf := &SpecFunc{Name: strings.TrimSpace(rest[:op]), Params: parseTypedList(rest[op+1 : cp]), Pkg: pkgPath, Opaque: true}
			tail := strings.TrimSpace(rest[cp+1:])
			i := strings.Index(tail, "=")
			if i < 0 {
				return fail(l.no, "opaque spec needs a body")
			}
			sf.Ret = strings.TrimSpace(tail[:i])
			e, err := ParseExpr(tail[i+1:])
			if err != nil {
				return fail(l.no, "%v", err)
			}
			sf.Body = e
			db.Specs[sf.Name] = sf
			cur, curLoop, curLemma = nil, nil, nil
		case "spec":
			// spec name(a T, b U) R [= expr]
			op := strings.Index(rest, "(")
			cp := matchParen(rest, op)
			if op < 0 || cp < 0 {
				return fail(l.no, "bad spec header")
			}
			sf := &SpecFunc{Name: strings.TrimSpace(rest[:op]), Params: parseTypedList(rest[op+1 : cp]), Pkg: pkgPath}
			tail := strings.TrimSpace(rest[cp+1:])
			if i := strings.Index(tail, "="); i >= 0 && !strings.HasPrefix(tail[i:], "==") {
				sf.Ret = strings.TrimSpace(tail[:i])
				e, err := ParseExpr(tail[i+1:])
				if err != nil {
					return fail(l.no, "%v", err)
				}
				sf.Body = e
			} else {
				sf.Ret = tail
			}
			db.Specs[sf.Name] = sf
			cur, curLoop, curLemma = nil, nil, nil
		case "axiom":
			tags, body := parseTags(rest)
			e, err := ParseExpr(body)
			if err != nil {
				return fail(l.no, "%v", err)
			}
			db.Axioms = append(db.Axioms, &Clause{Kind: "axiom", Tags: tags, Src: body, E: e, Line: l.no, File: filename})
			cur, curLoop, curLemma = nil, nil, nil
		case "lemma":
			// lemma name [tags] (vars)
			tags, body := parseTags(rest)
			name := body
			vars := ""
			if op := strings.Index(body, "("); op >= 0 {
				name = strings.TrimSpace(body[:op])
				cp := matchParen(body, op)
				vars = body[op+1 : cp]
			}
			nm := strings.Fields(name)
			if len(nm) > 1 {
				t2, _ := parseTags(strings.Join(nm[1:], " "))
				tags = append(tags, t2...)
				name = nm[0]
			}
			curLemma = &Lemma{Name: name, Tags: tags, Vars: parseTypedList(vars), File: filename, Line: l.no, Pkg: pkgPath}
			db.Lemmas = append(db.Lemmas, curLemma)
			cur, curLoop = nil, nil
		case "func", "assume", "iface", "inline":
			hdr := rest
			fc := &FuncContract{Pkg: pkgPath, File: filename, Line: l.no, Loops: map[int]*LoopSpec{}}
			switch word {
			case "assume":
				fc.Assume = true
				hdr = strings.TrimSpace(strings.TrimPrefix(hdr, "func"))
			case "iface":
				fc.Iface = true
				fc.Assume = true
			case "inline":
				fc.Inline = true
				hdr = strings.TrimSpace(strings.TrimPrefix(hdr, "func"))
			}
			// header:  Key(p1, p2) (r1, r2)   where Key may contain parens: (*T).M
			// find the parameter list: last "(" group(s) at the end
			key, params, results, err := parseFuncHeader(hdr)
			if err != nil {
				return fail(l.no, "%v", err)
			}
			fc.Params, fc.Results = params, results
			if !strings.Contains(key, "/") && !fc.Assume {
				key = pkgName + "." + key
			} else if !strings.Contains(key, "/") && fc.Assume && !strings.Contains(strings.TrimLeft(key, "(*"), ".") {
				key = pkgName + "." + key
			} else if !strings.Contains(key, "/") && fc.Assume && !fc.Iface && strings.HasPrefix(key, "(") {
				// method of a type of this package: (*T).M / (T).M with an unqualified T
				if cp := strings.Index(key, ")"); cp > 0 && !strings.Contains(key[:cp], ".") {
					key = pkgName + "." + key
				}
			}
			fc.Key = key
			if _, dup := db.Funcs[key]; dup {
				return fail(l.no, "duplicate contract for %s", key)
			}
			db.Funcs[key] = fc
			cur, curLoop, curLemma = fc, nil, nil
			counts = map[string]int{}
		case "loop":
			if cur == nil {
				return fail(l.no, "loop outside a func contract")
			}
			r := strings.TrimPrefix(strings.TrimSpace(rest), "#")
			n, err := strconv.Atoi(strings.TrimSpace(r))
			if err != nil {
				return fail(l.no, "loop wants #ordinal")
			}
			curLoop = &LoopSpec{Ord: n}
			cur.Loops[n] = curLoop
			counts = map[string]int{}
		case "fnparam":
			// fnparam name = FunctionKey : calls through this function-typed parameter use that contract
			if cur == nil {
				return fail(l.no, "fnparam outside func")
			}
			parts := strings.SplitN(rest, "=", 2)
			if len(parts) != 2 {
				return fail(l.no, "fnparam wants: name = functionKey")
			}
			if cur.FnParams == nil {
				cur.FnParams = map[string]string{}
			}
			key := strings.TrimSpace(parts[1])
			if !strings.Contains(key, ".") {
				key = pkgName + "." + key
			}
			cur.FnParams[strings.TrimSpace(parts[0])] = key
		case "noreturn":
			if cur == nil {
				return fail(l.no, "noreturn outside func")
			}
			cur.NoReturn = true
		case "pure":
			if cur == nil {
				return fail(l.no, "pure outside func")
			}
			cur.Pure = true
		case "onlywrites":
			// onlywrites [tags] "family-regexp" : "allowed-regexp"
			tags, body := parseTags(rest)
			parts := splitTop(body, ':')
			if cur == nil || len(parts) != 2 {
				return fail(l.no, "onlywrites wants: \"family\" : \"allowed\" inside a func contract")
			}
			fam, err1 := strconv.Unquote(parts[0])
			alw, err2 := strconv.Unquote(parts[1])
			if err1 != nil || err2 != nil {
				return fail(l.no, "onlywrites wants two quoted regular expressions")
			}
			cl := &Clause{Kind: "onlywrites", Tags: tags, Src: body, Line: l.no, File: filename, Family: fam, Allowed: alw}
			cl.Ord = counts[word]
			counts[word]++
			cur.Clauses = append(cur.Clauses, cl)
		case "assert":
			// assert @Callee#n [tags] expr : must hold right before the n-th call (1-based, in SSA order)
			// of Callee inside this function; the enclosing function's locals are in scope.
			if cur == nil {
				return fail(l.no, "assert outside a func contract")
			}
			fs := strings.SplitN(rest, " ", 2)
			if len(fs) != 2 || !strings.HasPrefix(fs[0], "@") {
				return fail(l.no, "assert wants: @Callee#n [tags] expr")
			}
			site := strings.TrimPrefix(fs[0], "@")
			tags, body := parseTags(fs[1])
			e, err := ParseExpr(body)
			if err != nil {
				return fail(l.no, "%v", err)
			}
			cl := &Clause{Kind: "assert", Tags: tags, Src: body, E: e, Line: l.no, File: filename, Site: site}
			cl.Ord = counts[word]
			counts[word]++
			cur.Clauses = append(cur.Clauses, cl)
		case "sets":
			// sets G = expr : ghost assignment made when the function returns. For callers it reads as
			// `modifies G` + `ensures G == (expr)`; for the function itself the ghost takes the value at each return.
			if cur == nil {
				return fail(l.no, "sets outside a func contract")
			}
			eq := strings.Index(rest, "=")
			if eq < 0 {
				return fail(l.no, "sets wants `name = expr`")
			}
			gname := strings.TrimSpace(rest[:eq])
			body := strings.TrimSpace(rest[eq+1:])
			e, err := ParseExpr(body)
			if err != nil {
				return fail(l.no, "%v", err)
			}
			cur.Clauses = append(cur.Clauses, &Clause{Kind: "sets", Src: rest, E: e, Line: l.no, File: filename, Site: gname})
			me, _ := ParseExpr(gname)
			mc := &Clause{Kind: "modifies", Src: gname, Line: l.no, File: filename, Mods: []Expr{me}}
			mc.Ord = counts["modifies"]
			counts["modifies"]++
			cur.Clauses = append(cur.Clauses, mc)
			ee, err := ParseExpr(gname + " == (" + body + ")")
			if err != nil {
				return fail(l.no, "%v", err)
			}
			ec := &Clause{Kind: "ensures", Src: gname + " == (" + body + ")", E: ee, Line: l.no, File: filename}
			ec.Ord = counts["ensures"]
			counts["ensures"]++
			cur.Clauses = append(cur.Clauses, ec)
		case "requires", "ensures", "invariant", "modifies", "decreases", "hyp", "concl":
			tags, body := parseTags(rest)
			cl := &Clause{Kind: word, Tags: tags, Src: body, Line: l.no, File: filename}
			if word == "modifies" {
				for _, part := range splitTop(body, ',') {
					if part == "" {
						continue
					}
					e, err := ParseExpr(part)
					if err != nil {
						return fail(l.no, "%v", err)
					}
					cl.Mods = append(cl.Mods, e)
				}
			} else {
				e, err := ParseExpr(body)
				if err != nil {
					return fail(l.no, "%v", err)
				}
				cl.E = e
			}
			if curLemma != nil && (word == "hyp" || word == "concl") {
				if word == "hyp" {
					curLemma.Hyps = append(curLemma.Hyps, cl.E)
				} else {
					curLemma.Concl = append(curLemma.Concl, cl.E)
				}
				continue
			}
			if cur == nil {
				return fail(l.no, "%s outside a func contract", word)
			}
			cl.Ord = counts[word]
			counts[word]++
			if curLoop != nil {
				curLoop.Clauses = append(curLoop.Clauses, cl)
			} else {
				cur.Clauses = append(cur.Clauses, cl)
			}
		default:
			return fail(l.no, "unknown directive %q", word)
		}
	}
	return nil
}

func matchParen(s string, open int) int {
	if open < 0 {
		return -1
	}
	depth := 0
	for i := open; i < len(s); i++ {
		switch s[i] {
		case '(':
			depth++
		case ')':
			depth--
			if depth == 0 {
				return i
			}
		}
	}
	return -1
}

// parseFuncHeader parses  "(*T).M(a, b) (r, err)"  /  "pkg/path.F(a) (r)" / "F()" .
func parseFuncHeader(h string) (key string, params, results []string, err error) {
	h = strings.TrimSpace(h)
	// scan for the parameter list: the first "(" that follows an identifier char at depth 0 and is not part of "(*T)" receiver.
	i := 0
	if strings.HasPrefix(h, "(") { // receiver group
		i = matchParen(h, 0) + 1
	}
	op := strings.Index(h[i:], "(")
	if op < 0 {
		return "", nil, nil, fmt.Errorf("bad function header %q", h)
	}
	op += i
	cp := matchParen(h, op)
	if cp < 0 {
		return "", nil, nil, fmt.Errorf("bad function header %q", h)
	}
	key = strings.TrimSpace(h[:op])
	params = parseNameList(h[op+1 : cp])
	tail := strings.TrimSpace(h[cp+1:])
	if tail != "" {
		if !strings.HasPrefix(tail, "(") {
			return "", nil, nil, fmt.Errorf("bad result list in %q", h)
		}
		rp := matchParen(tail, 0)
		results = parseNameList(tail[1:rp])
	}
	return key, params, results, nil
}
