package main

import (
	"encoding/json"
	"flag"
	"fmt"
	"os"
	"os/exec"
	"path/filepath"
	"sort"
	"strconv"
	"strings"
	"time"
)

type KnownFinding struct {
	Property   string `json:"property"`
	Obligation string `json:"obligation"`
	Status     string `json:"status"` // known | fixed
	Exclude    string `json:"exclude,omitempty"`
	Witness    string `json:"witness,omitempty"`
	What       string `json:"what"`
	Commit     string `json:"commit,omitempty"`
	Replay     string `json:"replay,omitempty"` // go test -run pattern of the witness test, if any
}

type KnownFile struct {
	Findings []KnownFinding `json:"findings"`
}

func loadKnown(path string) []KnownFinding {
	b, err := os.ReadFile(path)
	if err != nil {
		return nil
	}
	var kf KnownFile
	if err := json.Unmarshal(b, &kf); err != nil {
		fmt.Fprintln(os.Stderr, "known-findings:", err)
		os.Exit(2)
	}
	return kf.Findings
}

type Ledger map[string][]string // property -> obligation names

func loadLedger(path string) Ledger {
	b, err := os.ReadFile(path)
	if err != nil {
		return Ledger{}
	}
	var l Ledger
	if err := json.Unmarshal(b, &l); err != nil {
		fmt.Fprintln(os.Stderr, "ledger:", err)
		os.Exit(2)
	}
	return l
}

// CheckReport is what one property check found.
type CheckReport struct {
	Prop      string
	Funcs     []*FuncResult
	Obls      []*Obligation
	Covers    []*Obligation
	Failed    []*Obligation
	Vacuous   []*Obligation
	Errors    []string // functions that could not be brought under the generator
	Missing   []string // ledger obligations not generated
	Known     []string // KNOWN-FINDING lines
	SolverMS  int64
	ByBackend map[string]int
	Lemmas    []*Obligation
	Gone      []string // contracts (without property clauses) whose function no longer exists
}

// rootsFor: functions whose contract has a clause tagged with prop.
func (e *Engine) rootsFor(prop string) []string {
	var out []string
	for k, fc := range e.db.Funcs {
		if fc.Assume || fc.Inline {
			continue
		}
		if prop == "C20" || prop == "NONE" {
			out = append(out, k)
			continue
		}
		tagged := false
		check := func(cls []*Clause) {
			for _, c := range cls {
				for _, t := range c.Tags {
					if t == prop {
						tagged = true
					}
				}
			}
		}
		check(fc.Clauses)
		for _, l := range fc.Loops {
			check(l.Clauses)
		}
		if tagged {
			out = append(out, k)
		}
	}
	sort.Strings(out)
	return out
}

func (e *Engine) RunCheck(prop string, timeoutS int, thorough bool, known []KnownFinding, ledger Ledger) *CheckReport {
	rep := &CheckReport{Prop: prop, ByBackend: map[string]int{}}
	e.known = map[string]KnownFinding{}
	for _, k := range known {
		if k.Property == prop && k.Status == "known" {
			e.known[k.Obligation] = k
		}
	}
	done := map[string]bool{}
	work := e.rootsFor(prop)
	for len(work) > 0 {
		key := work[0]
		work = work[1:]
		if done[key] {
			continue
		}
		done[key] = true
		res := e.VerifyFunc(key, prop)
		rep.Funcs = append(rep.Funcs, res)
		if res.Err != "" {
			if res.ErrKind == "missing" && !e.hasTaggedClause(key) {
				// the function this contract was written for is gone (renamed, inlined, turned into a
				// package-level function ...). No property clause rides on it - those are in the ledger and
				// reported as MISSING - so this is not a violation; it is recorded.
				rep.Gone = append(rep.Gone, key)
				continue
			}
			rep.Errors = append(rep.Errors, fmt.Sprintf("%s: %s: %s", key, res.ErrKind, res.Err))
			continue
		}
		for _, o := range res.Obls {
			// panic freedom belongs to C20, and to C12 (a panic in one group's scan stops every later group)
			if o.Kind == "dec" && prop != "C20" {
				continue
			}
			if o.Kind == "safe" && prop != "C20" && prop != "C12" {
				continue
			}
			rep.Obls = append(rep.Obls, o)
		}
		rep.Covers = append(rep.Covers, res.Covers...)
		for _, c := range res.Callees {
			if !done[c] {
				work = append(work, c)
			}
		}
	}
	// lemmas tagged with the property
	rep.Lemmas = e.lemmaObligations(prop)
	rep.Obls = append(rep.Obls, rep.Lemmas...)
	all := append(append([]*Obligation{}, rep.Obls...), rep.Covers...)
	Discharge(all, timeoutS, 10, thorough)
	// an obligation that did not discharge is tried once more, alone-ish and with twice the time:
	// a busy machine must not turn a slow proof into an alarm
	var again []*Obligation
	for _, o := range rep.Obls {
		if o.Status != "unsat" && o.Status != "sat" && o.ctx != nil {
			again = append(again, o)
		}
	}
	if len(again) > 0 && len(again) <= 40 {
		Discharge(again, 2*timeoutS, 4, thorough)
	}
	// lemmas about the spec functions themselves that need induction: Lean 4 / Mathlib files
	rep.Obls = append(rep.Obls, leanLemmas(prop)...)
	for _, o := range rep.Obls {
		rep.SolverMS += o.Millis
		if o.Status == "unsat" {
			rep.ByBackend[o.Backend]++
		} else {
			rep.Failed = append(rep.Failed, o)
		}
	}
	for _, c := range rep.Covers {
		if c.Status == "unsat" {
			rep.Vacuous = append(rep.Vacuous, c)
		}
	}
	// ledger
	have := map[string]bool{}
	for _, o := range rep.Obls {
		have[o.Name] = true
		if i := strings.Index(o.Name, "@r"); i > 0 {
			have[o.Name[:i]] = true
		}
	}
	for _, name := range ledger[prop] {
		// structural obligations (loop invariants, call-site preconditions) may legitimately
		// disappear in a refactoring; what must never disappear silently are the clauses themselves
		if !(strings.Contains(name, "/post#") || strings.Contains(name, "/assert#") || strings.Contains(name, "/onlywrites#") || strings.HasPrefix(name, "lemma/")) {
			continue
		}
		if !have[name] {
			rep.Missing = append(rep.Missing, name)
		}
	}
	// known findings matched (their excluded class was applied when generating)
	for _, k := range known {
		if k.Property == prop && k.Status == "known" && have[k.Obligation] {
			rep.Known = append(rep.Known, fmt.Sprintf("KNOWN-FINDING: property=%s %s: %s", prop, k.Obligation, k.What))
		}
	}
	return rep
}

func cmdCheck(args []string) {
	fs := flag.NewFlagSet("check", flag.ExitOnError)
	repo := fs.String("repo", "/repo", "repository root")
	prop := fs.String("prop", "", "property id")
	tier := fs.String("tier", "quick", "quick|thorough")
	verif := fs.String("verif", "/verif", "verif root")
	fs.Parse(args)
	start := time.Now()
	thorough := *tier == "thorough"
	timeout := 40
	if thorough {
		timeout = 90
	}
	seed := 0
	if s := os.Getenv("VERIF_SEED"); s != "" {
		seed, _ = strconv.Atoi(s)
	}
	verifRoot = *verif
	known := loadKnown(filepath.Join(*verif, "known-findings.json"))
	ledger := loadLedger(filepath.Join(*verif, "baseline", "obligations.json"))
	e, err := Load(*repo, nil)
	if err != nil {
		// the tree does not type-check / contracts do not parse: nothing can be said
		fmt.Printf("UNDECIDED property=%s reason=%v\n", *prop, err)
		writeEvidenceFail(*verif, *prop, *tier, seed, time.Since(start).Seconds(), err.Error())
		os.Exit(2)
	}
	e.loadBaseLocals(*verif)
	rep := e.RunCheck(*prop, timeout, thorough, known, ledger)
	outDir := filepath.Join(*verif, "replay", "out")
	os.MkdirAll(outDir, 0o755)
	violations := 0
	var vioLines []string
	report := func(name, body string, model bool, o *Obligation) {
		violations++
		file := filepath.Join(outDir, fmt.Sprintf("%s-%s.json", *prop, sanitize(name)))
		rp := map[string]interface{}{"property": *prop, "obligation": name, "verifier_output": body}
		suffix := " no-failing-input-found"
		if o != nil {
			rp["kind"], rp["position"], rp["clause"], rp["status"], rp["backend"] = o.Kind, o.Pos, o.Src, o.Status, o.Backend
			if o.Status == "sat" {
				rp["model"] = modelSummary(o.Model, 400)
				if ok, detail := tryReplay(*verif, *repo, *prop, o, rp); ok {
					suffix = ""
					rp["replayed"] = detail
				} else {
					rp["replayed"] = "not reproduced: " + detail
				}
			}
		}
		b, _ := json.MarshalIndent(rp, "", " ")
		os.WriteFile(file, b, 0o644)
		vioLines = append(vioLines, fmt.Sprintf("VIOLATION property=%s replay=%s%s", *prop, file, suffix))
	}
	for _, o := range rep.Failed {
		body := o.Output
		if o.Status == "sat" {
			body = "sat (counterexample found by " + o.Backend + ")"
		}
		fmt.Printf("FAILED %s [%s] %s: %s\n", o.Name, o.Status, o.Pos, o.Src)
		report(o.Name, body, o.Status == "sat", o)
	}
	for _, er := range rep.Errors {
		fmt.Printf("UNGENERATED %s\n", er)
		report("generation:"+strings.SplitN(er, ":", 2)[0], er, false, nil)
	}
	for _, m := range rep.Missing {
		fmt.Printf("MISSING %s (in the ledger of the pinned tree, not generated now)\n", m)
		already := false
		for _, er := range rep.Errors {
			if strings.HasPrefix(m, strings.SplitN(er, ":", 2)[0]+"/") {
				already = true
			}
		}
		if !already {
			report(m, "obligation listed in baseline/obligations.json was not generated from the current tree", false, nil)
		}
	}
	for _, c := range rep.Vacuous {
		fmt.Printf("VACUOUS %s: assumptions are contradictory (%s)\n", c.Name, c.Src)
		report(c.Name, "cover probe is unsat: the contracts assumed on this path are contradictory", false, nil)
	}
	if len(rep.Obls) == 0 {
		fmt.Printf("VACUOUS property=%s: no obligations generated\n", *prop)
		report("no-obligations", "zero obligations were generated for this property", false, nil)
	}
	for _, k := range rep.Known {
		fmt.Println(k)
	}
	for _, g := range rep.Gone {
		fmt.Printf("NOTE contract %s has no function in this tree any more (it carries no property clause; recorded in the evidence)\n", g)
	}
	// thorough extras
	extra := map[string]interface{}{}
	if !thorough {
		// findings of the bounded stand-ins are exercised in the thorough tier only; they are listed all the same
		for _, k := range known {
			if k.Property == *prop && k.Status == "known" && strings.HasPrefix(k.Obligation, "bounded/") {
				fmt.Printf("KNOWN-FINDING: property=%s %s: %s [bounded stand-in, run in the thorough tier]\n", *prop, k.Obligation, k.What)
			}
		}
	}
	if thorough {
		st := runSelftest(*verif, *repo, *prop, 10)
		extra["selftest"] = st
		for _, m := range st.Missed {
			fmt.Printf("SELFTEST-MISS %s (mutant not detected; the check is weaker than it should be)\n", m)
		}
		if bd := runBounded(*verif, *repo, *prop, seed); bd != nil {
			extra["bounded"] = bd
			for _, l := range bd.Known {
				fmt.Println(l)
			}
			for _, vl := range bd.Violations {
				violations++
				vioLines = append(vioLines, vl)
			}
		}
	}
	wall := time.Since(start).Seconds()
	writeEvidence(*verif, e, rep, *tier, seed, wall, violations, thorough, extra)
	fmt.Printf("property=%s tier=%s functions=%d obligations=%d discharged=%d covers=%d solver_ms=%d wall_s=%.1f\n",
		*prop, *tier, len(rep.Funcs), len(rep.Obls), len(rep.Obls)-len(rep.Failed), len(rep.Covers), rep.SolverMS, wall)
	for _, l := range vioLines {
		fmt.Println(l)
	}
	if violations > 0 {
		os.Exit(1)
	}
}

func sanitize(s string) string {
	return strings.NewReplacer("/", "_", "*", "", "(", "", ")", "", "#", "_", "[", "_", "]", "", ",", "_", "@", "_", ":", "_", " ", "_").Replace(s)
}

func writeEvidenceFail(verif, prop, tier string, seed int, wall float64, why string) {
	ev := map[string]interface{}{
		"property_id": prop, "tier": tier, "seed": seed, "level": "other", "wall_s": wall, "violations": 0,
		"coverage": map[string]interface{}{"explanation": "the working tree could not be loaded, nothing was decided: " + why},
	}
	b, _ := json.MarshalIndent(ev, "", " ")
	os.MkdirAll(filepath.Join(verif, "evidence"), 0o755)
	os.WriteFile(filepath.Join(verif, "evidence", prop+".json"), b, 0o644)
}

func writeEvidence(verif string, e *Engine, rep *CheckReport, tier string, seed int, wall float64, violations int, thorough bool, extra map[string]interface{}) {
	trusted := map[string]bool{}
	var fns, inl, outside []string
	notes := map[string]bool{}
	for _, f := range rep.Funcs {
		if f.Err != "" {
			outside = append(outside, f.Key+": "+f.Err)
			continue
		}
		fns = append(fns, f.Key)
		for _, t := range f.Trusted {
			trusted[t] = true
		}
		inl = append(inl, f.Inlined...)
		for _, n := range f.Notes {
			notes[n] = true
		}
	}
	var samples []map[string]interface{}
	sorted := append([]*Obligation{}, rep.Obls...)
	sort.Slice(sorted, func(i, j int) bool { return sorted[i].Millis > sorted[j].Millis })
	for i, o := range rep.Obls {
		if i >= 400 {
			break
		}
		s := map[string]interface{}{"obligation": o.Name, "kind": o.Kind, "status": o.Status, "backend": o.Backend, "ms": o.Millis, "at": o.Pos}
		if o.Src != "" {
			s["clause"] = o.Src
		}
		if o.Second != "" {
			s["second_backend"] = o.Second
		}
		samples = append(samples, s)
	}
	var slow []string
	for i, o := range sorted {
		if i >= 5 {
			break
		}
		slow = append(slow, fmt.Sprintf("%s %dms (%s)", o.Name, o.Millis, o.Backend))
	}
	tb := keysOf(trusted)
	tb = append(tb,
		"arithmetic: int/int64/time.Duration are mathematical integers (no wrap-around); time.Time is an unbounded count of ns; float64 is modelled as the reals",
		"govc itself (VC generator over go/ssa), go/ssa construction, the SMT solvers",
		"effect-free allow-list: logrus, prometheus, fmt, errors, context, sync, pkg/metrics calls neither read nor write modelled state",
		"Kubernetes objects handed out by listers are not mutated concurrently during a scan")
	cov := map[string]interface{}{
		"obligations":                len(rep.Obls),
		"discharged":                 len(rep.Obls) - len(rep.Failed),
		"checker_cmd":                fmt.Sprintf("/verif/bin/govc check -prop %s -tier %s  (z3-new 5.1.0 | z3 4.8.12 | cvc5 1.0 raced per obligation)", rep.Prop, tier),
		"trusted_base":               tb,
		"samples":                    samples,
		"functions_under_contract":   fns,
		"functions_inlined":          dedup(inl),
		"functions_outside_subset":   outside,
		"by_backend":                 rep.ByBackend,
		"solver_time_s":              float64(rep.SolverMS) / 1000,
		"slowest":                    slow,
		"covers_checked":             len(rep.Covers),
		"covers_vacuous":             len(rep.Vacuous),
		"known_findings_matched":     rep.Known,
		"ledger_missing":             rep.Missing,
		"lemmas":                     len(rep.Lemmas),
		"contracts_without_function": rep.Gone,
	}
	for k, x := range extra {
		cov[k] = x
	}
	assumptions := []string{}
	for n := range notes {
		assumptions = append(assumptions, n)
	}
	sort.Strings(assumptions)
	assumptions = append(assumptions, propAssumptions[rep.Prop]...)
	for _, t := range tb {
		if strings.HasPrefix(t, "assumed contract") || strings.HasPrefix(t, "arithmetic:") || strings.HasPrefix(t, "effect-free") || strings.HasPrefix(t, "Kubernetes objects") {
			assumptions = append(assumptions, t)
		}
	}
	level := "proof"
	if len(rep.Obls) == 0 {
		level = "other"
		cov["explanation"] = "no obligations were generated"
	}
	ev := map[string]interface{}{
		"property_id": rep.Prop, "tier": tier, "seed": seed, "level": level, "coverage": cov,
		"assumptions": assumptions, "wall_s": wall, "violations": violations,
	}
	b, _ := json.MarshalIndent(ev, "", " ")
	os.MkdirAll(filepath.Join(verif, "evidence"), 0o755)
	os.WriteFile(filepath.Join(verif, "evidence", rep.Prop+".json"), b, 0o644)
}

var propAssumptions = map[string][]string{}

// ------------------------------------------------------------ ledger

func cmdLedger(args []string) {
	fs := flag.NewFlagSet("ledger", flag.ExitOnError)
	repo := fs.String("repo", "/repo", "repository root")
	verif := fs.String("verif", "/verif", "verif root")
	props := fs.String("props", "", "comma separated property ids")
	fs.Parse(args)
	e, err := Load(*repo, nil)
	if err != nil {
		fmt.Fprintln(os.Stderr, err)
		os.Exit(2)
	}
	known := loadKnown(filepath.Join(*verif, "known-findings.json"))
	path := filepath.Join(*verif, "baseline", "obligations.json")
	ledger := loadLedger(path)
	bad := false
	for _, p := range strings.Split(*props, ",") {
		rep := e.RunCheck(p, 10, false, known, Ledger{})
		var names []string
		seenName := map[string]bool{}
		for _, o := range rep.Obls {
			nm := o.Name
			if i := strings.Index(nm, "@r"); i > 0 {
				nm = nm[:i]
			}
			if !seenName[nm] {
				seenName[nm] = true
				names = append(names, nm)
			}
			if o.Status != "unsat" {
				fmt.Printf("%s: NOT DISCHARGED %s (%s)\n", p, o.Name, o.Status)
				bad = true
			}
		}
		for _, er := range rep.Errors {
			fmt.Printf("%s: ERROR %s\n", p, er)
			bad = true
		}
		sort.Strings(names)
		ledger[p] = names
		fmt.Printf("%s: %d obligations\n", p, len(names))
	}
	if bad {
		fmt.Println("ledger NOT written: some obligations do not discharge on this tree")
		os.Exit(1)
	}
	b, _ := json.MarshalIndent(ledger, "", " ")
	os.MkdirAll(filepath.Dir(path), 0o755)
	os.WriteFile(path, b, 0o644)
	// the local variables of every function under contract, so that a later rename can be followed
	locals := map[string][]LocalVar{}
	for key, fc := range e.db.Funcs {
		if fc.Assume {
			continue
		}
		if fn := e.fnByKey[key]; fn != nil {
			locals[key] = localVars(fn)
		}
	}
	lb, _ := json.MarshalIndent(locals, "", " ")
	os.WriteFile(filepath.Join(filepath.Dir(path), "locals.json"), lb, 0o644)
}

// loadBaseLocals reads baseline/locals.json (absent: no rename following).
func (e *Engine) loadBaseLocals(verif string) {
	b, err := os.ReadFile(filepath.Join(verif, "baseline", "locals.json"))
	if err != nil {
		return
	}
	m := map[string][]LocalVar{}
	if json.Unmarshal(b, &m) == nil {
		e.baseLocals = m
	}
}

// ------------------------------------------------------------ selftest (must-fail corpus)

type SelftestResult struct {
	Run      int      `json:"mutants_run"`
	Detected int      `json:"mutants_detected"`
	Missed   []string `json:"missed"`
	Details  []string `json:"details"`
}

// overlayFromPatch applies a unified diff to copies of the touched files and
// returns them as a go/packages overlay (the repository itself is untouched).
func overlayFromPatch(repo, patch string) (map[string][]byte, error) {
	data, err := os.ReadFile(patch)
	if err != nil {
		return nil, err
	}
	tmp, err := os.MkdirTemp("", "govc-mut-")
	if err != nil {
		return nil, err
	}
	defer os.RemoveAll(tmp)
	var files []string
	for _, l := range strings.Split(string(data), "\n") {
		if strings.HasPrefix(l, "+++ b/") {
			name := strings.TrimPrefix(l, "+++ b/")
			if i := strings.Index(name, "\t"); i >= 0 {
				name = name[:i]
			}
			files = append(files, strings.TrimSpace(name))
		}
	}
	for _, f := range files {
		src, err := os.ReadFile(filepath.Join(repo, f))
		if err != nil {
			return nil, err
		}
		os.MkdirAll(filepath.Dir(filepath.Join(tmp, f)), 0o755)
		os.WriteFile(filepath.Join(tmp, f), src, 0o644)
	}
	cmd := exec.Command("patch", "-s", "-p1", "-d", tmp, "-i", patch)
	if out, err := cmd.CombinedOutput(); err != nil {
		return nil, fmt.Errorf("patch failed: %v: %s", err, out)
	}
	ov := map[string][]byte{}
	for _, f := range files {
		b, err := os.ReadFile(filepath.Join(tmp, f))
		if err != nil {
			return nil, err
		}
		ov[filepath.Join(repo, f)] = b
	}
	return ov, nil
}

func mutantDirs(verif, prop string) []string {
	var out []string
	for _, base := range []string{"selftest", "seeded"} {
		ms, _ := filepath.Glob(filepath.Join(verif, base, prop+"*", "patch.diff"))
		out = append(out, ms...)
		ms, _ = filepath.Glob(filepath.Join(verif, base, prop, "*", "patch.diff"))
		out = append(out, ms...)
	}
	sort.Strings(out)
	return out
}

func runSelftest(verif, repo, prop string, timeoutS int) *SelftestResult {
	st := &SelftestResult{}
	known := loadKnown(filepath.Join(verif, "known-findings.json"))
	ledger := loadLedger(filepath.Join(verif, "baseline", "obligations.json"))
	for _, p := range mutantDirs(verif, prop) {
		name := strings.TrimPrefix(filepath.Dir(p), verif+"/")
		meta := map[string]interface{}{}
		if b, err := os.ReadFile(filepath.Join(filepath.Dir(p), "meta.json")); err == nil {
			json.Unmarshal(b, &meta)
		}
		if exp, ok := meta["expect"].(string); ok && exp == "pass" {
			continue // no-false-alarm canaries are run by `govc selftest`
		}
		if exp, ok := meta["expect"].(string); ok && exp == "miss" {
			continue // documented as outside what contracts can decide
		}
		ov, err := overlayFromPatch(repo, p)
		if err != nil {
			st.Details = append(st.Details, name+": "+err.Error())
			continue
		}
		st.Run++
		e, err := Load(repo, ov)
		if err != nil {
			st.Details = append(st.Details, name+": does not load: "+err.Error())
			st.Detected++
			continue
		}
		e.loadBaseLocals(verif)
		rep := e.RunCheck(prop, timeoutS, false, known, ledger)
		if n := len(rep.Failed) + len(rep.Errors) + len(rep.Missing) + len(rep.Vacuous); n > 0 {
			st.Detected++
			var names []string
			for _, o := range rep.Failed {
				names = append(names, o.Name+"["+o.Status+"]")
			}
			for _, er := range rep.Errors {
				names = append(names, "ungenerated:"+er)
			}
			names = append(names, rep.Missing...)
			if len(names) > 4 {
				names = append(names[:4], "…")
			}
			st.Details = append(st.Details, name+": detected by "+strings.Join(names, ", "))
		} else {
			st.Missed = append(st.Missed, name)
		}
	}
	return st
}

func cmdSelftest(args []string) {
	fs := flag.NewFlagSet("selftest", flag.ExitOnError)
	repo := fs.String("repo", "/repo", "repository root")
	verif := fs.String("verif", "/verif", "verif root")
	props := fs.String("props", "", "comma separated property ids")
	fs.Parse(args)
	bad := 0
	for _, p := range strings.Split(*props, ",") {
		st := runSelftest(*verif, *repo, p, 10)
		fmt.Printf("%s: mutants run=%d detected=%d\n", p, st.Run, st.Detected)
		for _, d := range st.Details {
			fmt.Println("   ", d)
		}
		for _, m := range st.Missed {
			fmt.Println("    MISSED", m)
			bad++
		}
	}
	if bad > 0 {
		os.Exit(1)
	}
}

var verifRoot = "/verif"

// leanLemmas checks /verif/lemmas/<prop>*.lean with the installed Lean (no sorry, no new axioms, no output).
func leanLemmas(prop string) []*Obligation {
	files, _ := filepath.Glob(filepath.Join(verifRoot, "lemmas", prop+"*.lean"))
	var out []*Obligation
	for _, f := range files {
		o := &Obligation{Name: "lemma/lean:" + strings.TrimSuffix(filepath.Base(f), ".lean"), Kind: "lemma", Pos: f, Src: "Lean-checked lemma over the contract's spec functions", Backend: "lean-4"}
		src, _ := os.ReadFile(f)
		start := time.Now()
		if strings.Contains(string(src), "sorry") || strings.Contains(string(src), "\naxiom ") || strings.Contains(string(src), "native_decide") {
			o.Status, o.Output = "error", "the file contains sorry / axiom / native_decide"
		} else {
			cmd := exec.Command("lean", f)
			cmd.Dir = filepath.Dir(f)
			b, err := cmd.CombinedOutput()
			if err == nil && len(strings.TrimSpace(string(b))) == 0 {
				o.Status = "unsat"
			} else {
				o.Status, o.Output = "error", string(b)
				if err != nil {
					o.Output += " " + err.Error()
				}
			}
		}
		o.Millis = time.Since(start).Milliseconds()
		out = append(out, o)
	}
	return out
}

// hasTaggedClause: some clause of the contract carries a property tag.
func (e *Engine) hasTaggedClause(key string) bool {
	fc := e.db.Funcs[key]
	if fc == nil {
		return false
	}
	for _, cl := range fc.Clauses {
		if len(cl.Tags) > 0 {
			return true
		}
	}
	for _, l := range fc.Loops {
		for _, cl := range l.Clauses {
			if len(cl.Tags) > 0 {
				return true
			}
		}
	}
	return false
}
