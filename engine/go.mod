module govc

go 1.23.0

require golang.org/x/tools v0.29.0

require (
	github.com/google/go-cmp v0.7.0 // indirect
	golang.org/x/mod v0.22.0 // indirect
	golang.org/x/sync v0.10.0 // indirect
)

replace github.com/atlassian/escalator => /repo
