package main

import (
	"fmt"
	"go/types"
	"sort"

	"golang.org/x/tools/go/ssa"
)

// Val is a symbolic Go value: Term | SliceV | *StructV | TupleV | AddrV | UnitV | *ClosureV
type Val interface{}

type SliceV struct {
	B, O, L, C Term
	Elem       types.Type
}

type StructV struct {
	T     types.Type
	get   func(i int) Val
	cache map[int]Val
}

func (s *StructV) Get(i int) Val {
	if v, ok := s.cache[i]; ok {
		return v
	}
	v := s.get(i)
	if s.cache == nil {
		s.cache = map[int]Val{}
	}
	s.cache[i] = v
	return v
}

type TupleV []Val

// AddrV is the address of a non-struct field inside a struct object.
type AddrV struct {
	Obj   Term
	T     types.Type // the struct type (possibly named)
	Field int
}

type UnitV struct{}

type ClosureV struct {
	Fn       *ssa.Function
	Bindings []Val
	Term     Term
}

// State is the symbolic heap: current version of every array/ghost that has
// been touched, plus the allocation clock. Persistent (copy on write).
type State struct {
	arr map[string]Term
	now Term
	stk map[*ssa.Alloc]Val // struct-typed locals that never escape ("stack structs"), by value
}

// StackAddrV is the address of (a field path inside) a stack struct.
type StackAddrV struct {
	A    *ssa.Alloc
	Path []int
}

func (s *State) withStk(a *ssa.Alloc, v Val) *State {
	n := &State{arr: s.arr, now: s.now, stk: make(map[*ssa.Alloc]Val, len(s.stk)+1)}
	for k, x := range s.stk {
		n.stk[k] = x
	}
	n.stk[a] = v
	return n
}

func (s *State) with(name string, t Term) *State {
	n := &State{arr: make(map[string]Term, len(s.arr)+1), now: s.now, stk: s.stk}
	for k, v := range s.arr {
		n.arr[k] = v
	}
	n.arr[name] = t
	return n
}

func (s *State) withNow(t Term) *State {
	return &State{arr: s.arr, now: t, stk: s.stk}
}

func (s *State) keys() []string {
	ks := make([]string, 0, len(s.arr))
	for k := range s.arr {
		ks = append(ks, k)
	}
	sort.Strings(ks)
	return ks
}

type unsupported struct{ msg string }

func (u unsupported) Error() string { return u.msg }

func unsupp(format string, args ...interface{}) {
	panic(unsupported{fmt.Sprintf(format, args...)})
}

func asTerm(v Val) Term {
	switch x := v.(type) {
	case Term:
		return x
	case *ClosureV:
		return x.Term
	}
	panic(unsupported{fmt.Sprintf("expected scalar, got %T", v)})
}
